/- helper lemmas for TjdProps/C09b.lean -/
import Mathlib.Algebra.Order.Field.Basic
import Mathlib.Algebra.Order.Chebyshev
import Mathlib.Tactic.Ring
import Mathlib.Tactic.Linarith
import Mathlib.Tactic.FieldSimp
import Mathlib.Tactic.Positivity
import TjdModel.Agg.Spec2
import TjdLemmas.QPLemmas
import TjdLemmas.GramLemmas
import TjdLemmas.QPGram
import TjdLemmas.EquivC09
namespace Tjd.Agg.C09b
open Tjd Tjd.Agg Matrix
set_option linter.unusedSectionVars false
set_option linter.unusedSimpArgs false
set_option linter.unusedVariables false

variable {α : Type} [Field α] [LinearOrder α] [IsStrictOrderedRing α]

/-! ### abstract statements on `Fin m → α` -/
section abstract
variable {m n : Nat}

/-- a quadratic `2 t a + t² D` that is non-negative on `[0,1]` has `a ≥ 0` -/
theorem scalar_first_order (a D : α) (hD : 0 ≤ D)
    (h : ∀ t : α, 0 ≤ t → t ≤ 1 → 0 ≤ 2 * t * a + t * t * D) : 0 ≤ a := by
  by_contra hlt
  rw [not_le] at hlt
  by_cases hc : D ≤ -a
  · have := h 1 zero_le_one le_rfl
    linarith
  · rw [not_le] at hc
    have hDpos : 0 < D := by linarith
    have ht0 : 0 ≤ -a / D := div_nonneg (by linarith) hD
    have ht1 : -a / D ≤ 1 := by rw [div_le_one hDpos]; exact hc.le
    have h' := h (-a / D) ht0 ht1
    have e : 2 * (-a / D) * a + (-a / D) * (-a / D) * D = -(a * a / D) := by
      field_simp; ring
    rw [e] at h'
    have : 0 < a * a / D := div_pos (mul_pos_of_neg_of_neg hlt hlt) hDpos
    linarith

/-- first-order optimality of a minimiser of `|f B|²` over `{f | fu ≤ f}` -/
theorem first_order_fn (B : Matrix (Fin m) (Fin n) α) (fu fw fv : Fin m → α) (h1 : fu ≤ fw)
    (hv : fu ≤ fv)
    (hmin : ∀ f, fu ≤ f → (fw ᵥ* B) ⬝ᵥ (fw ᵥ* B) ≤ (f ᵥ* B) ⬝ᵥ (f ᵥ* B)) :
    0 ≤ (fw ᵥ* B) ⬝ᵥ (fv ᵥ* B - fw ᵥ* B) := by
  apply scalar_first_order _ ((fv ᵥ* B - fw ᵥ* B) ⬝ᵥ (fv ᵥ* B - fw ᵥ* B))
    (dotProduct_self_nonneg' _)
  intro t ht0 ht1
  have hf : fu ≤ fw + t • (fv - fw) := by
    intro k
    simp only [Pi.add_apply, Pi.smul_apply, Pi.sub_apply, smul_eq_mul]
    have a := mul_nonneg (sub_nonneg.2 ht1) (sub_nonneg.2 (h1 k))
    have b := mul_nonneg ht0 (sub_nonneg.2 (hv k))
    linarith
  have h := hmin _ hf
  rw [add_vecMul, smul_vecMul, sub_vecMul] at h
  generalize fw ᵥ* B = x at *
  generalize fv ᵥ* B = y at *
  simp only [add_dotProduct, dotProduct_add, smul_dotProduct, dotProduct_smul, smul_eq_mul] at h
  rw [dotProduct_comm (y - x) x] at h
  linarith

/-- `|x' − x|² ≤ |x'|² − |x|²` for the output `x` of a minimiser and the output `x'` of a
    feasible point -/
theorem dist_le_gap_fn (B : Matrix (Fin m) (Fin n) α) (fu fw fv : Fin m → α) (h1 : fu ≤ fw)
    (hv : fu ≤ fv)
    (hmin : ∀ f, fu ≤ f → (fw ᵥ* B) ⬝ᵥ (fw ᵥ* B) ≤ (f ᵥ* B) ⬝ᵥ (f ᵥ* B)) :
    (fv ᵥ* B - fw ᵥ* B) ⬝ᵥ (fv ᵥ* B - fw ᵥ* B) ≤
      (fv ᵥ* B) ⬝ᵥ (fv ᵥ* B) - (fw ᵥ* B) ⬝ᵥ (fw ᵥ* B) := by
  have h := first_order_fn B fu fw fv h1 hv hmin
  generalize fw ᵥ* B = x at *
  generalize fv ᵥ* B = y at *
  simp only [sub_dotProduct, dotProduct_sub] at h ⊢
  rw [dotProduct_comm y x]
  linarith

/-- regularisation error, abstract form: `c = 1/s²`, `e = reg_eps` -/
theorem reg_close_fn (B : Matrix (Fin m) (Fin n) α) (fu f0 fe : Fin m → α) (c e : α) (hc : 0 < c)
    (he : 0 ≤ e) (h0 : fu ≤ f0) (h1 : fu ≤ fe)
    (hmin0 : ∀ f, fu ≤ f → (f0 ᵥ* B) ⬝ᵥ (f0 ᵥ* B) ≤ (f ᵥ* B) ⬝ᵥ (f ᵥ* B))
    (hmine : c * ((fe ᵥ* B) ⬝ᵥ (fe ᵥ* B)) + e * (fe ⬝ᵥ fe) ≤
      c * ((f0 ᵥ* B) ⬝ᵥ (f0 ᵥ* B)) + e * (f0 ⬝ᵥ f0)) :
    (fe ᵥ* B - f0 ᵥ* B) ⬝ᵥ (fe ᵥ* B - f0 ᵥ* B) ≤ e * c⁻¹ * (f0 ⬝ᵥ f0) := by
  have h := dist_le_gap_fn B fu f0 fe h0 h1 hmin0
  have hn := mul_nonneg he (dotProduct_self_nonneg' fe)
  have h2 : c * ((fe ᵥ* B) ⬝ᵥ (fe ᵥ* B) - (f0 ᵥ* B) ⬝ᵥ (f0 ᵥ* B)) ≤ e * (f0 ⬝ᵥ f0) := by
    rw [mul_sub]; linarith
  have h3 : (fe ᵥ* B) ⬝ᵥ (fe ᵥ* B) - (f0 ᵥ* B) ⬝ᵥ (f0 ᵥ* B) ≤ c⁻¹ * (e * (f0 ⬝ᵥ f0)) :=
    (le_inv_mul_iff₀ hc).mpr h2
  calc _ ≤ _ := h
    _ ≤ _ := h3
    _ = _ := by ring

theorem dotProduct_self_eq_zero'' (f : Fin n → α) (h : f ⬝ᵥ f = 0) : f = 0 := by
  by_contra hne
  exact (dotProduct_self_pos' f hne).ne' h

/-- the output of a minimiser is unique -/
theorem unique_fn (B : Matrix (Fin m) (Fin n) α) (fu fw fw' : Fin m → α) (h1 : fu ≤ fw)
    (h1' : fu ≤ fw')
    (hmin : ∀ f, fu ≤ f → (fw ᵥ* B) ⬝ᵥ (fw ᵥ* B) ≤ (f ᵥ* B) ⬝ᵥ (f ᵥ* B))
    (hmin' : ∀ f, fu ≤ f → (fw' ᵥ* B) ⬝ᵥ (fw' ᵥ* B) ≤ (f ᵥ* B) ⬝ᵥ (f ᵥ* B)) :
    fw ᵥ* B = fw' ᵥ* B := by
  have h := dist_le_gap_fn B fu fw fw' h1 h1' hmin
  have h2 := hmin' fw h1
  have hn := dotProduct_self_nonneg' (fw' ᵥ* B - fw ᵥ* B)
  have hz : (fw' ᵥ* B - fw ᵥ* B) ⬝ᵥ (fw' ᵥ* B - fw ᵥ* B) = 0 := by linarith
  exact (sub_eq_zero.mp (dotProduct_self_eq_zero'' _ hz)).symm

theorem vecMul_scaled (B B' : Matrix (Fin m) (Fin n) α) (fc : Fin m → α)
    (hB' : ∀ k j, B' k j = fc k * B k j) (g : Fin m → α) :
    g ᵥ* B' = (fun k => g k * fc k) ᵥ* B := by
  funext j
  simp only [vecMul, dotProduct, hB']
  apply Finset.sum_congr rfl
  intro k _
  ring

/-- positive row scaling: minimisers for `u_i e_i` are mapped to minimisers, output times `c_i` -/
theorem scale_fn (B B' : Matrix (Fin m) (Fin n) α) (fc : Fin m → α)
    (hB' : ∀ k j, B' k j = fc k * B k j) (hpos : ∀ k, 0 < fc k) (i : Fin m) (fu fw : Fin m → α)
    (hu : ∀ k, k ≠ i → fu k = 0) (h1 : fu ≤ fw)
    (hmin : ∀ f, fu ≤ f → (fw ᵥ* B) ⬝ᵥ (fw ᵥ* B) ≤ (f ᵥ* B) ⬝ᵥ (f ᵥ* B)) :
    fu ≤ (fun k => fw k * fc i / fc k) ∧
      (fun k => fw k * fc i / fc k) ᵥ* B' = fc i • (fw ᵥ* B) ∧
      ∀ g, fu ≤ g → ((fun k => fw k * fc i / fc k) ᵥ* B') ⬝ᵥ ((fun k => fw k * fc i / fc k) ᵥ* B') ≤
        (g ᵥ* B') ⬝ᵥ (g ᵥ* B') := by
  have hout : (fun k => fw k * fc i / fc k) ᵥ* B' = fc i • (fw ᵥ* B) := by
    rw [vecMul_scaled B B' fc hB', ← smul_vecMul]
    congr 1
    funext k
    have := (hpos k).ne'
    simp only [Pi.smul_apply, smul_eq_mul]
    field_simp
  refine ⟨?_, hout, ?_⟩
  · intro k
    by_cases hk : k = i
    · subst hk
      have := (hpos k).ne'
      have e : fw k * fc k / fc k = fw k := by field_simp
      simp only [e]
      exact h1 k
    · have h0 : 0 ≤ fw k := by have := h1 k; rwa [hu k hk] at this
      simp only [hu k hk]
      exact div_nonneg (mul_nonneg h0 (hpos i).le) (hpos k).le
  · intro g hg
    have hg' : fu ≤ fun k => g k * fc k / fc i := by
      intro k
      by_cases hk : k = i
      · subst hk
        have := (hpos k).ne'
        have e : g k * fc k / fc k = g k := by field_simp
        simp only [e]
        exact hg k
      · have h0 : 0 ≤ g k := by have := hg k; rwa [hu k hk] at this
        simp only [hu k hk]
        exact div_nonneg (mul_nonneg h0 (hpos k).le) (hpos i).le
    have hgo : g ᵥ* B' = fc i • ((fun k => g k * fc k / fc i) ᵥ* B) := by
      rw [vecMul_scaled B B' fc hB', ← smul_vecMul]
      congr 1
      funext k
      have := (hpos i).ne'
      simp only [Pi.smul_apply, smul_eq_mul]
      field_simp
    rw [hout, hgo]
    simp only [smul_dotProduct, dotProduct_smul, smul_eq_mul]
    have := hmin _ hg'
    have hc := (hpos i).le
    exact mul_le_mul_of_nonneg_left (mul_le_mul_of_nonneg_left this hc) hc

end abstract

/-! ### list level -/

-- `prefRow`, `rescaleW`: model definitions (TjdModel/Agg/Gramian.lean)

def upOut (n m : Nat) (J : Mat α) (W : Nat → Vec α) : Vec α :=
  vsum n ((List.range m).map fun i => combine n J (W i))

theorem prefRow_length (m i : Nat) (ui : α) : (prefRow m i ui).length = m := by simp [prefRow]

theorem rescaleW_length (m i : Nat) (c w : Vec α) : (rescaleW m i c w).length = m := by
  simp [rescaleW]

theorem toFn_prefRow (m i : Nat) (ui : α) :
    toFn m (prefRow m i ui) = fun k : Fin m => if (k : Nat) = i then ui else 0 := by
  funext k
  simp [toFn, prefRow, List.getD_eq_getElem?_getD, List.getElem?_range k.2]

theorem toFn_rescaleW (m i : Nat) (c w : Vec α) :
    toFn m (rescaleW m i c w) = fun k : Fin m => toFn m w k * c.getD i 0 / toFn m c k := by
  funext k
  simp [toFn, rescaleW, List.getD_eq_getElem?_getD, List.getElem?_range k.2]

theorem toMat_scaleRows (J : Mat α) (m n : Nat) (hJ : MatWF J m n) (c : Vec α) (hc : c.length = m)
    (k : Fin m) (j : Fin n) :
    toMat m n (scaleRows c J) k j = toFn m c k * toMat m n J k j := by
  rw [toMat_apply, Eqv.scaleRows_getD J m hJ.1 c hc k k.2, smul_getD]
  rfl

/-- `IsQPMin (gram J)` read on `Fin m → α` with `B = toMat m n J` -/
theorem isQPMin_gram_iff (J : Mat α) (m n : Nat) (hJ : MatWF J m n) (u w : Vec α) (hu : u.length = m) :
    IsQPMin (gram J) u w ↔ w.length = m ∧ toFn m u ≤ toFn m w ∧
      ∀ f : Fin m → α, toFn m u ≤ f →
        (toFn m w ᵥ* toMat m n J) ⬝ᵥ (toFn m w ᵥ* toMat m n J) ≤
          (f ᵥ* toMat m n J) ⬝ᵥ (f ᵥ* toMat m n J) := by
  rw [isQPMin_iff m _ u w hu, toMat_gram J m n hJ]
  simp only [qfF_gram]

theorem sqdist_fn (n : Nat) (x y : Vec α) (hx : x.length = n) (hy : y.length = n) :
    dot (vsub x y) (vsub x y) = (toFn n x - toFn n y) ⬝ᵥ (toFn n x - toFn n y) := by
  rw [dot_eq_left n _ _ (by rw [vsub_length _ _ (by omega)]; omega), toFn_vsub n x y (by omega)]

theorem reg_close (J : Mat α) (m n : Nat) (hJ : MatWF J m n) (s normEps regEps : α)
    (hs : 0 < s) (hns : ¬ s < normEps) (hre : 0 ≤ regEps) (u w0 we : Vec α) (hu : u.length = m)
    (h0 : IsQPMin (gram J) u w0) (he : IsQPMin (regNormGram J s normEps regEps) u we) :
    dot (vsub (combine n J we) (combine n J w0)) (vsub (combine n J we) (combine n J w0)) ≤
      regEps * (s * s) * dot w0 w0 := by
  rw [isQPMin_gram_iff J m n hJ u w0 hu] at h0
  rw [isQPMin_iff m _ u we hu, toMat_regNormGram J m n hJ] at he
  obtain ⟨hw0, hle0, hmin0⟩ := h0
  obtain ⟨hwe, hlee, hmine⟩ := he
  simp only [qfF_regNormGram] at hmine
  have hg : gramCoef s normEps = (s * s)⁻¹ := by simp [gramCoef, hns]
  have h := reg_close_fn (toMat m n J) (toFn m u) (toFn m w0) (toFn m we) (gramCoef s normEps)
    regEps (by rw [hg]; exact inv_pos.mpr (mul_pos hs hs)) hre hle0 hlee hmin0 (hmine _ hle0)
  rw [hg, inv_inv] at h
  rw [sqdist_fn n _ _ (combine_length J m n hJ we) (combine_length J m n hJ w0),
    toFn_combine J m n hJ we hwe, toFn_combine J m n hJ w0 hw0, dot_eq_left m w0 w0 hw0.le]
  exact h

theorem output_unique (J : Mat α) (m n : Nat) (hJ : MatWF J m n) (u w w' : Vec α)
    (hu : u.length = m) (h : IsQPMin (gram J) u w) (h' : IsQPMin (gram J) u w') :
    combine n J w = combine n J w' := by
  rw [isQPMin_gram_iff J m n hJ u _ hu] at h h'
  obtain ⟨hw, hle, hmin⟩ := h
  obtain ⟨hw', hle', hmin'⟩ := h'
  apply toFn_injective n _ _ (combine_length J m n hJ w) (combine_length J m n hJ w')
  rw [toFn_combine J m n hJ w hw, toFn_combine J m n hJ w' hw']
  exact unique_fn _ _ _ _ hle hle' hmin hmin'

theorem scaleRows_min (J : Mat α) (m n : Nat) (hJ : MatWF J m n) (c : Vec α) (hc : c.length = m)
    (hpos : ∀ k, k < m → 0 < c.getD k 0) (i : Nat) (hi : i < m) (ui : α) (w : Vec α)
    (h : IsQPMin (gram J) (prefRow m i ui) w) :
    IsQPMin (gram (scaleRows c J)) (prefRow m i ui) (rescaleW m i c w) ∧
    combine n (scaleRows c J) (rescaleW m i c w) = smul (c.getD i 0) (combine n J w) := by
  have hJ' := Eqv.scaleRows_matWF J m n hJ c hc
  have hu := prefRow_length (α := α) m i ui
  rw [isQPMin_gram_iff J m n hJ _ w hu] at h
  obtain ⟨hw, hle, hmin⟩ := h
  have hfu : ∀ k : Fin m, k ≠ ⟨i, hi⟩ → toFn m (prefRow m i ui) k = 0 := by
    intro k hk
    rw [toFn_prefRow]
    have : (k : Nat) ≠ i := fun e => hk (Fin.ext e)
    simp [this]
  obtain ⟨a1, a2, a3⟩ := scale_fn (toMat m n J) (toMat m n (scaleRows c J)) (toFn m c)
    (toMat_scaleRows J m n hJ c hc) (fun k => hpos k k.2) ⟨i, hi⟩ (toFn m (prefRow m i ui))
    (toFn m w) hfu hle hmin
  have e : (fun k : Fin m => toFn m w k * toFn m c ⟨i, hi⟩ / toFn m c k) =
      toFn m (rescaleW m i c w) := by
    rw [toFn_rescaleW]; rfl
  rw [e] at a1 a2 a3
  constructor
  · rw [isQPMin_gram_iff (scaleRows c J) m n hJ' _ _ hu]
    exact ⟨rescaleW_length m i c w, a1, a3⟩
  · apply toFn_injective n _ _ (combine_length _ m n hJ' _)
      (by rw [smul_length, combine_length J m n hJ])
    rw [toFn_combine _ m n hJ' _ (rescaleW_length m i c w), a2, toFn_smul,
      toFn_combine J m n hJ w hw]
    rfl

theorem unreg_linear (J : Mat α) (m n : Nat) (hJ : MatWF J m n) (c u : Vec α) (hc : c.length = m)
    (hu : u.length = m) (hpos : ∀ k, k < m → 0 < c.getD k 0) (W0 W' : Nat → Vec α)
    (h0 : ∀ i, i < m → IsQPMin (gram J) (prefRow m i (u.getD i 0)) (W0 i))
    (h' : ∀ i, i < m → IsQPMin (gram (scaleRows c J)) (prefRow m i (u.getD i 0)) (W' i)) :
    upOut n m (scaleRows c J) W' =
      vsum n ((List.range m).map fun i => smul (c.getD i 0) (combine n J (W0 i))) := by
  unfold upOut
  congr 1
  apply List.map_congr_left
  intro i hi
  have hi' : i < m := List.mem_range.mp hi
  obtain ⟨b1, b2⟩ := scaleRows_min J m n hJ c hc hpos i hi' (u.getD i 0) (W0 i) (h0 i hi')
  rw [← b2]
  exact output_unique (scaleRows c J) m n (Eqv.scaleRows_matWF J m n hJ c hc) _ _ _
    (prefRow_length m i _) (h' i hi') b1

/-! ### the capstone -/
section capstone_abstract
variable {m n : Nat}

theorem sqnorm_sum_le (d : Fin m → Fin n → α) :
    (∑ i, d i) ⬝ᵥ (∑ i, d i) ≤ (m : α) * ∑ i, d i ⬝ᵥ d i := by
  simp only [dotProduct, Finset.sum_apply]
  rw [Finset.sum_comm, Finset.mul_sum]
  apply Finset.sum_le_sum
  intro j _
  have h := sq_sum_le_card_mul_sum_sq (s := (Finset.univ : Finset (Fin m))) (f := fun i => d i j)
  simp only [Finset.card_univ, Fintype.card_fin, sq] at h
  exact h

theorem sqnorm_three (X Y Z : Fin n → α) (a b : α) :
    (X - (a • Y + b • Z)) ⬝ᵥ (X - (a • Y + b • Z)) ≤
      3 * (X ⬝ᵥ X + a * a * (Y ⬝ᵥ Y) + b * b * (Z ⬝ᵥ Z)) := by
  simp only [dotProduct, Finset.mul_sum, ← Finset.sum_add_distrib, Pi.sub_apply, Pi.add_apply,
    Pi.smul_apply, smul_eq_mul]
  apply Finset.sum_le_sum
  intro j _
  nlinarith [sq_nonneg (X j + a * Y j), sq_nonneg (X j + b * Z j), sq_nonneg (a * Y j - b * Z j)]

theorem defect_fn (P Q R P0 Q0 R0 : Fin m → Fin n → α) (a b : α) (bp bq br : Fin m → α)
    (hlin : ∑ i, P0 i = a • ∑ i, Q0 i + b • ∑ i, R0 i)
    (hp : ∀ i, (P i - P0 i) ⬝ᵥ (P i - P0 i) ≤ bp i)
    (hq : ∀ i, (Q i - Q0 i) ⬝ᵥ (Q i - Q0 i) ≤ bq i)
    (hr : ∀ i, (R i - R0 i) ⬝ᵥ (R i - R0 i) ≤ br i) :
    (∑ i, P i - (a • ∑ i, Q i + b • ∑ i, R i)) ⬝ᵥ (∑ i, P i - (a • ∑ i, Q i + b • ∑ i, R i)) ≤
      3 * (m : α) * (∑ i, bp i + a * a * ∑ i, bq i + b * b * ∑ i, br i) := by
  have e : ∑ i, P i - (a • ∑ i, Q i + b • ∑ i, R i) =
      ∑ i, (P i - P0 i) - (a • ∑ i, (Q i - Q0 i) + b • ∑ i, (R i - R0 i)) := by
    rw [Finset.sum_sub_distrib, Finset.sum_sub_distrib, Finset.sum_sub_distrib, hlin]
    funext j
    simp only [Pi.sub_apply, Pi.add_apply, Pi.smul_apply, smul_eq_mul]
    ring
  rw [e]
  have hm : (0 : α) ≤ (m : α) := Nat.cast_nonneg m
  have h3 := sqnorm_three (∑ i, (P i - P0 i)) (∑ i, (Q i - Q0 i)) (∑ i, (R i - R0 i)) a b
  have sp := (sqnorm_sum_le fun i => P i - P0 i).trans
    (mul_le_mul_of_nonneg_left (Finset.sum_le_sum fun i _ => hp i) hm)
  have sq := (sqnorm_sum_le fun i => Q i - Q0 i).trans
    (mul_le_mul_of_nonneg_left (Finset.sum_le_sum fun i _ => hq i) hm)
  have sr := (sqnorm_sum_le fun i => R i - R0 i).trans
    (mul_le_mul_of_nonneg_left (Finset.sum_le_sum fun i _ => hr i) hm)
  have sq' := mul_le_mul_of_nonneg_left sq (mul_self_nonneg a)
  have sr' := mul_le_mul_of_nonneg_left sr (mul_self_nonneg b)
  linarith

end capstone_abstract

theorem range_map_getD {β : Type} (m : Nat) (F : Nat → β) (d : β) (i : Nat) (hi : i < m) :
    ((List.range m).map F).getD i d = F i := by
  simp [List.getD_eq_getElem?_getD, List.getElem?_range hi]

theorem range_map_sum (m : Nat) (F : Nat → α) :
    ((List.range m).map F).sum = ∑ i : Fin m, F i := by
  rw [list_sum_eq_sum m _ (by simp)]
  apply Finset.sum_congr rfl
  intro i _
  exact range_map_getD m F 0 i i.2

theorem upOut_length (J : Mat α) (m n : Nat) (hJ : MatWF J m n) (W : Nat → Vec α) :
    (upOut n m J W).length = n := by
  apply vsum_length
  intro x hx
  obtain ⟨i, _, rfl⟩ := List.mem_map.mp hx
  exact combine_length J m n hJ _

theorem toFn_upOut (J : Mat α) (m n : Nat) (hJ : MatWF J m n) (W : Nat → Vec α) :
    toFn n (upOut n m J W) = ∑ i : Fin m, toFn n (combine n J (W i)) := by
  rw [upOut, toFn_vsum m n _ (by simp)]
  · apply Finset.sum_congr rfl
    intro i _
    rw [range_map_getD m _ [] i i.2]
  · intro x hx
    obtain ⟨i, _, rfl⟩ := List.mem_map.mp hx
    exact combine_length J m n hJ _

/-- regularisation error of one projection of the scaled problem, against `c_i · x_i` -/
theorem reg_bound_scaled (J : Mat α) (m n : Nat) (hJ : MatWF J m n) (u cc : Vec α)
    (hcc : cc.length = m) (hpos : ∀ k, k < m → 0 < cc.getD k 0) (s normEps regEps : α)
    (hs : 0 < s) (hns : ¬ s < normEps) (hre : 0 ≤ regEps) (W0 We : Nat → Vec α)
    (h0 : ∀ i, i < m → IsQPMin (gram J) (prefRow m i (u.getD i 0)) (W0 i))
    (he : ∀ i, i < m → IsQPMin (regNormGram (scaleRows cc J) s normEps regEps)
            (prefRow m i (u.getD i 0)) (We i)) (i : Fin m) :
    (toFn n (combine n (scaleRows cc J) (We i)) - toFn m cc i • toFn n (combine n J (W0 i))) ⬝ᵥ
      (toFn n (combine n (scaleRows cc J) (We i)) - toFn m cc i • toFn n (combine n J (W0 i))) ≤
      regEps * (s * s) * dot (rescaleW m i cc (W0 i)) (rescaleW m i cc (W0 i)) := by
  have hJ' := Eqv.scaleRows_matWF J m n hJ cc hcc
  obtain ⟨b1, b2⟩ := scaleRows_min J m n hJ cc hcc hpos i i.2 (u.getD i 0) (W0 i) (h0 i i.2)
  have h := reg_close (scaleRows cc J) m n hJ' s normEps regEps hs hns hre _ _ (We i)
    (prefRow_length m i _) b1 (he i i.2)
  rw [sqdist_fn n _ _ (combine_length _ m n hJ' _) (combine_length _ m n hJ' _), b2, toFn_smul] at h
  exact h

theorem linearity_defect_sq (J : Mat α) (m n : Nat) (hJ : MatWF J m n) (u c1 c2 : Vec α) (a b : α)
    (hu : u.length = m) (h1 : c1.length = m) (h2 : c2.length = m)
    (hp1 : ∀ k, k < m → 0 < c1.getD k 0) (hp2 : ∀ k, k < m → 0 < c2.getD k 0) (ha : 0 < a) (hb : 0 < b)
    (s s1 s2 normEps regEps : α) (hs : 0 < s) (hs1 : 0 < s1) (hs2 : 0 < s2)
    (hns : ¬ s < normEps) (hns1 : ¬ s1 < normEps) (hns2 : ¬ s2 < normEps) (hre : 0 ≤ regEps)
    (W0 We We1 We2 : Nat → Vec α)
    (h0 : ∀ i, i < m → IsQPMin (gram J) (prefRow m i (u.getD i 0)) (W0 i))
    (he : ∀ i, i < m → IsQPMin (regNormGram (scaleRows (vadd (smul a c1) (smul b c2)) J) s normEps regEps)
            (prefRow m i (u.getD i 0)) (We i))
    (he1 : ∀ i, i < m → IsQPMin (regNormGram (scaleRows c1 J) s1 normEps regEps)
            (prefRow m i (u.getD i 0)) (We1 i))
    (he2 : ∀ i, i < m → IsQPMin (regNormGram (scaleRows c2 J) s2 normEps regEps)
            (prefRow m i (u.getD i 0)) (We2 i)) :
    dot (vsub (upOut n m (scaleRows (vadd (smul a c1) (smul b c2)) J) We)
              (vadd (smul a (upOut n m (scaleRows c1 J) We1)) (smul b (upOut n m (scaleRows c2 J) We2))))
        (vsub (upOut n m (scaleRows (vadd (smul a c1) (smul b c2)) J) We)
              (vadd (smul a (upOut n m (scaleRows c1 J) We1)) (smul b (upOut n m (scaleRows c2 J) We2)))) ≤
      3 * (m : α) * regEps *
        (s * s * ((List.range m).map fun i =>
            dot (rescaleW m i (vadd (smul a c1) (smul b c2)) (W0 i))
              (rescaleW m i (vadd (smul a c1) (smul b c2)) (W0 i))).sum +
          a * a * (s1 * s1) * ((List.range m).map fun i =>
            dot (rescaleW m i c1 (W0 i)) (rescaleW m i c1 (W0 i))).sum +
          b * b * (s2 * s2) * ((List.range m).map fun i =>
            dot (rescaleW m i c2 (W0 i)) (rescaleW m i c2 (W0 i))).sum) := by
  have h12 : c1.length = c2.length := by omega
  generalize hcdef : vadd (smul a c1) (smul b c2) = c at *
  have hcl : c.length = m := by rw [← hcdef, Eqv.lincomb_length a b c1 c2 h12, h1]
  have hcg : ∀ k, c.getD k 0 = a * c1.getD k 0 + b * c2.getD k 0 := by
    intro k; rw [← hcdef, Eqv.lincomb_getD a b c1 c2 h12]
  have hpc : ∀ k, k < m → 0 < c.getD k 0 := by
    intro k hk
    rw [hcg]
    exact add_pos (mul_pos ha (hp1 k hk)) (mul_pos hb (hp2 k hk))
  have hJc := Eqv.scaleRows_matWF J m n hJ c hcl
  have hJ1 := Eqv.scaleRows_matWF J m n hJ c1 h1
  have hJ2 := Eqv.scaleRows_matWF J m n hJ c2 h2
  have l0 := upOut_length _ m n hJc We
  have l1 := upOut_length _ m n hJ1 We1
  have l2 := upOut_length _ m n hJ2 We2
  have l12 : (smul a (upOut n m (scaleRows c1 J) We1)).length =
      (smul b (upOut n m (scaleRows c2 J) We2)).length := by rw [smul_length, smul_length, l1, l2]
  have l3 : (vadd (smul a (upOut n m (scaleRows c1 J) We1))
      (smul b (upOut n m (scaleRows c2 J) We2))).length = n := by
    rw [vadd_length _ _ l12, smul_length, l1]
  rw [sqdist_fn n _ _ l0 l3, toFn_vadd n _ _ l12, toFn_smul, toFn_smul,
    toFn_upOut _ m n hJc, toFn_upOut _ m n hJ1, toFn_upOut _ m n hJ2]
  have hlin : ∑ i : Fin m, toFn m c i • toFn n (combine n J (W0 i)) =
      a • ∑ i : Fin m, toFn m c1 i • toFn n (combine n J (W0 i)) +
        b • ∑ i : Fin m, toFn m c2 i • toFn n (combine n J (W0 i)) := by
    rw [Finset.smul_sum, Finset.smul_sum, ← Finset.sum_add_distrib]
    apply Finset.sum_congr rfl
    intro i _
    rw [toFn_apply, hcg, smul_smul, smul_smul, ← add_smul]
    rfl
  have h := defect_fn
    (fun i : Fin m => toFn n (combine n (scaleRows c J) (We i)))
    (fun i : Fin m => toFn n (combine n (scaleRows c1 J) (We1 i)))
    (fun i : Fin m => toFn n (combine n (scaleRows c2 J) (We2 i)))
    (fun i : Fin m => toFn m c i • toFn n (combine n J (W0 i)))
    (fun i : Fin m => toFn m c1 i • toFn n (combine n J (W0 i)))
    (fun i : Fin m => toFn m c2 i • toFn n (combine n J (W0 i))) a b
    (fun i : Fin m => regEps * (s * s) * dot (rescaleW m i c (W0 i)) (rescaleW m i c (W0 i)))
    (fun i : Fin m => regEps * (s1 * s1) * dot (rescaleW m i c1 (W0 i)) (rescaleW m i c1 (W0 i)))
    (fun i : Fin m => regEps * (s2 * s2) * dot (rescaleW m i c2 (W0 i)) (rescaleW m i c2 (W0 i)))
    hlin
    (reg_bound_scaled J m n hJ u c hcl hpc s normEps regEps hs hns hre W0 We h0 he)
    (reg_bound_scaled J m n hJ u c1 h1 hp1 s1 normEps regEps hs1 hns1 hre W0 We1 h0 he1)
    (reg_bound_scaled J m n hJ u c2 h2 hp2 s2 normEps regEps hs2 hns2 hre W0 We2 h0 he2)
  refine h.trans (le_of_eq ?_)
  rw [range_map_sum, range_map_sum, range_map_sum, ← Finset.mul_sum, ← Finset.mul_sum,
    ← Finset.mul_sum]
  ring

/-! ### the computed bound: `upgradRows` on the un-regularised Gramian -/

theorem upgradRows_rows (G : Mat α) (u : Vec α) (ws : List (Vec α)) (h : upgradRows G u = some ws) :
    ws.length = u.length ∧ ∀ i, i < u.length → ∃ mg',
      qpProject G (prefRow u.length i (u.getD i 0)) = some (ws.getD i [], mg') := by
  unfold upgradRows at h
  simp only at h
  split at h
  · rename_i hall
    have hmap := all_isSome_map_some _ hall
    simp only [Option.some.injEq] at h
    generalize hps : List.filterMap id _ = ps at hmap h
    have hlen : ps.length = u.length := by
      have := congrArg List.length hmap
      simpa using this
    subst h
    refine ⟨by simpa using hlen, fun i hi => ?_⟩
    refine ⟨(ps.getD i ([], 0)).2, ?_⟩
    have := congrArg (fun l => l[i]?) hmap
    simp only [List.getElem?_map, List.getElem?_range hi, Option.map_some, Option.some.injEq,
      List.getElem?_eq_getElem (hlen ▸ hi : i < ps.length)] at this
    rw [← this]
    simp [List.getD_eq_getElem?_getD, List.getElem?_eq_getElem (hlen ▸ hi : i < ps.length)]
  · simp at h

theorem upgradRows_sound' (J : Mat α) (m n : Nat) (hJ : MatWF J m n) (u : Vec α) (hu : u.length = m)
    (ws : List (Vec α)) (h : upgradRows (gram J) u = some ws) :
    ws.length = m ∧ ∀ i, i < m → IsQPMin (gram J) (prefRow m i (u.getD i 0)) (ws.getD i []) := by
  subst hu
  obtain ⟨hlen, hrows⟩ := upgradRows_rows (gram J) u ws h
  refine ⟨hlen, fun i hi => ?_⟩
  obtain ⟨mg', hq⟩ := hrows i hi
  exact isQPMin_of_kktCheck (gram J) u.length (gram_symmSquare J _ n hJ) (gram_psd J _ n hJ) _ _
    (by simp [prefRow]) (qpProject_kkt _ _ _ mg' hq)

theorem unregSumsq_eq (ws : List (Vec α)) (cc : Vec α) (m : Nat) (hc : cc.length = m) :
    unregSumsq ws cc = ((List.range m).map fun i =>
      dot (rescaleW m i cc (ws.getD i [])) (rescaleW m i cc (ws.getD i []))).sum := by
  subst hc
  rfl

theorem defect_bound_computed (J : Mat α) (m n : Nat) (hJ : MatWF J m n) (u c1 c2 : Vec α) (a b : α)
    (hu : u.length = m) (h1 : c1.length = m) (h2 : c2.length = m)
    (hp1 : ∀ k, k < m → 0 < c1.getD k 0) (hp2 : ∀ k, k < m → 0 < c2.getD k 0) (ha : 0 < a) (hb : 0 < b)
    (s s1 s2 normEps regEps : α) (hs : 0 < s) (hs1 : 0 < s1) (hs2 : 0 < s2)
    (hns : ¬ s < normEps) (hns1 : ¬ s1 < normEps) (hns2 : ¬ s2 < normEps) (hre : 0 ≤ regEps)
    (ws : List (Vec α)) (hws : upgradRows (gram J) u = some ws)
    (We We1 We2 : Nat → Vec α)
    (he : ∀ i, i < m → IsQPMin (regNormGram (scaleRows (vadd (smul a c1) (smul b c2)) J) s normEps regEps)
            (prefRow m i (u.getD i 0)) (We i))
    (he1 : ∀ i, i < m → IsQPMin (regNormGram (scaleRows c1 J) s1 normEps regEps)
            (prefRow m i (u.getD i 0)) (We1 i))
    (he2 : ∀ i, i < m → IsQPMin (regNormGram (scaleRows c2 J) s2 normEps regEps)
            (prefRow m i (u.getD i 0)) (We2 i)) :
    dot (vsub (upOut n m (scaleRows (vadd (smul a c1) (smul b c2)) J) We)
              (vadd (smul a (upOut n m (scaleRows c1 J) We1)) (smul b (upOut n m (scaleRows c2 J) We2))))
        (vsub (upOut n m (scaleRows (vadd (smul a c1) (smul b c2)) J) We)
              (vadd (smul a (upOut n m (scaleRows c1 J) We1)) (smul b (upOut n m (scaleRows c2 J) We2)))) ≤
      3 * (m : α) * regEps *
        (s * s * unregSumsq ws (vadd (smul a c1) (smul b c2)) + a * a * (s1 * s1) * unregSumsq ws c1 +
          b * b * (s2 * s2) * unregSumsq ws c2) := by
  have h0 := (upgradRows_sound' J m n hJ u hu ws hws).2
  rw [unregSumsq_eq ws _ m ((Eqv.lincomb_length a b c1 c2 (h1.trans h2.symm)).trans h1), unregSumsq_eq ws c1 m h1,
    unregSumsq_eq ws c2 m h2]
  exact linearity_defect_sq J m n hJ u c1 c2 a b hu h1 h2 hp1 hp2 ha hb s s1 s2 normEps regEps hs hs1 hs2
    hns hns1 hns2 hre (fun i => ws.getD i []) We We1 We2 h0 he he1 he2

end Tjd.Agg.C09b
