/- helper lemmas for TjdProps/C17.lean -/
import Mathlib.Algebra.Order.Field.Basic
import Mathlib.Data.Matrix.Mul
import Mathlib.LinearAlgebra.Matrix.NonsingularInverse
import Mathlib.Algebra.BigOperators.Fin
import Mathlib.Tactic.Ring
import Mathlib.Tactic.Linarith
import Mathlib.Tactic.FieldSimp
import TjdModel.Agg.Spec2
import TjdLemmas.QPLemmas
namespace Tjd.Agg
open Tjd Matrix
set_option linter.unusedSectionVars false
set_option linter.unusedSimpArgs false

variable {α : Type} [Field α] [LinearOrder α] [IsStrictOrderedRing α]

/-! ### list-level linearity of `dot`, `vsum`, `combine` -/

theorem dot_zeros_right (r : Vec α) (n : Nat) : dot r (zeros n) = 0 := by
  rw [dot_eq_left r.length r _ le_rfl, toFn_zeros, dotProduct_zero]

theorem dot_zeros_left (r : Vec α) (n : Nat) : dot (zeros n) r = 0 := by
  rw [dot_comm', dot_zeros_right]

theorem dot_vadd_right (r x y : Vec α) (h : x.length = y.length) :
    dot r (vadd x y) = dot r x + dot r y := by
  rw [dot_eq_left r.length r _ le_rfl, toFn_vadd _ x y h, dotProduct_add,
    ← dot_eq_left r.length r x le_rfl, ← dot_eq_left r.length r y le_rfl]

theorem dot_smul_right (r : Vec α) (c : α) (x : Vec α) : dot r (smul c x) = c * dot r x := by
  rw [dot_eq_left r.length r _ le_rfl, toFn_smul, dotProduct_smul, smul_eq_mul,
    ← dot_eq_left r.length r x le_rfl]

theorem dot_smul_left (c : α) (x y : Vec α) : dot (smul c x) y = c * dot x y := by
  rw [dot_comm', dot_smul_right, dot_comm']

theorem smul_zeros (c : α) (n : Nat) : smul c (zeros n : Vec α) = zeros n := by
  simp [smul, zeros]

theorem vadd_zeros_zeros (n : Nat) : vadd (zeros n : Vec α) (zeros n) = zeros n := by
  simp [vadd, zeros]

theorem vsum_nil (n : Nat) : vsum n ([] : List (Vec α)) = zeros n := rfl

theorem vsum_cons (n : Nat) (x : Vec α) (xs : List (Vec α)) (hx : x.length = n)
    (hall : ∀ y ∈ xs, y.length = n) : vsum n (x :: xs) = vadd x (vsum n xs) := by
  have hall' : ∀ y ∈ x :: xs, y.length = n := by
    intro y hy
    rcases List.mem_cons.mp hy with rfl | hy
    · exact hx
    · exact hall y hy
  have hl := vsum_length n xs hall
  apply toFn_injective n _ _ (vsum_length n _ hall')
    (by rw [vadd_length _ _ (by omega)]; exact hx)
  rw [toFn_vsum (xs.length + 1) n (x :: xs) rfl hall', toFn_vadd n x _ (by omega),
    toFn_vsum xs.length n xs rfl hall, Fin.sum_univ_succ]
  rfl

theorem zipWith_smul_length (n : Nat) (J : Mat α) (hJ : ∀ row ∈ J, row.length = n) (w : Vec α) :
    ∀ x ∈ List.zipWith smul w J, x.length = n := by
  intro x hx
  obtain ⟨i, hi, rfl⟩ := List.mem_iff_getElem.mp hx
  rw [List.getElem_zipWith, smul_length]
  exact hJ _ (List.getElem_mem _)

theorem combine_nil_left (n : Nat) (w : Vec α) : combine n ([] : Mat α) w = zeros n := by
  simp [combine, vsum]

theorem combine_nil_right (n : Nat) (J : Mat α) : combine n J ([] : Vec α) = zeros n := by
  simp [combine, vsum]

theorem combine_cons (n : Nat) (row : Vec α) (J : Mat α) (a : α) (w : Vec α)
    (hrow : row.length = n) (hJ : ∀ r ∈ J, r.length = n) :
    combine n (row :: J) (a :: w) = vadd (smul a row) (combine n J w) := by
  rw [combine, List.zipWith_cons_cons, vsum_cons n _ _ (by rw [smul_length]; exact hrow)
    (zipWith_smul_length n J hJ w)]
  rfl

theorem combine_length_imp (n : Nat) (J : Mat α) (hJ : ∀ r ∈ J, r.length = n) (w : Vec α) :
    (combine n J w).length = n :=
  vsum_length n _ (zipWith_smul_length n J hJ w)

/-- `⟨J r, w⟩ = ⟨r, Jᵀ w⟩`, no length hypothesis on `w` (both sides truncate / zero-pad alike) -/
theorem dot_matVec_combine (n : Nat) (r : Vec α) : ∀ (J : Mat α) (w : Vec α),
    (∀ row ∈ J, row.length = n) → dot (matVec J r) w = dot r (combine n J w)
  | [], w, _ => by
    rw [combine_nil_left, dot_zeros_right]; simp [matVec, dot_nil_left]
  | row :: J, [], _ => by
    rw [combine_nil_right, dot_zeros_right, dot_nil_right]
  | row :: J, a :: w, h => by
    have hrow : row.length = n := h row (by simp)
    have hJ : ∀ r ∈ J, r.length = n := fun r hr => h r (by simp [hr])
    rw [combine_cons n row J a w hrow hJ,
      dot_vadd_right _ _ _ (by rw [smul_length, combine_length_imp n J hJ]; exact hrow),
      dot_smul_right, ← dot_matVec_combine n r J w hJ]
    show dot (dot row r :: matVec J r) (a :: w) = _
    rw [dot_cons_cons, dot_comm' row r, mul_comm]

theorem gram_getD_imp (J : Mat α) (i : Nat) (hi : i < J.length) :
    (gram J).getD i [] = matVec J (J.getD i []) := by
  simp [gram, matVec, List.getD_eq_getElem?_getD, List.getElem?_eq_getElem hi]
  exact fun a _ => dot_comm' _ _

/-- `(J Jᵀ w)_i = ⟨j_i, Jᵀ w⟩` -/
theorem gram_matVec_getD (n : Nat) (J : Mat α) (hJ : ∀ row ∈ J, row.length = n) (w : Vec α)
    (i : Nat) (hi : i < J.length) :
    (matVec (gram J) w).getD i 0 = dot (J.getD i []) (combine n J w) := by
  rw [matVec_getD, gram_getD_imp J i hi, dot_matVec_combine n _ J w hJ]

theorem getD_map_lt {β γ : Type} (g : β → γ) (l : List β) (i : Nat) (hi : i < l.length) (d : β)
    (e : γ) : (l.map g).getD i e = g (l.getD i d) := by
  simp [List.getD_eq_getElem?_getD, List.getElem?_eq_getElem hi]

theorem zeros_no_nonzero (n : Nat) : ¬ ∃ x ∈ (zeros n : Vec α), x ≠ 0 := by
  rintro ⟨x, hx, hx0⟩
  exact hx0 (List.eq_of_mem_replicate hx)

theorem combine_zero_matrix (n : Nat) : ∀ (m : Nat) (w : Vec α),
    combine n (List.replicate m (zeros n : Vec α)) w = zeros n
  | 0, w => combine_nil_left n w
  | m + 1, [] => combine_nil_right n _
  | m + 1, a :: w => by
    rw [List.replicate_succ, combine_cons n _ _ a w (zeros_length n)
      (fun r hr => by rw [List.eq_of_mem_replicate hr]; exact zeros_length n),
      combine_zero_matrix n m w, smul_zeros, vadd_zeros_zeros]

theorem dot_self_nonneg (x : Vec α) : 0 ≤ dot x x := by
  rw [dot_eq_left x.length x x le_rfl]
  exact dotProduct_self_nonneg' _

/-! ### IMTL-G -/

theorem imtlg_proj (J : Mat α) (m n : Nat) (hJ : MatWF J m n) (d v : Vec α)
    (hcert : matVec (gram J) v = d) (s : α) (i : Nat) (hi : i < m) :
    dot (J.getD i []) (combine n J (v.map (· / s))) = s⁻¹ * d.getD i 0 := by
  have e : v.map (· / s) = smul s⁻¹ v := by simp [smul, div_eq_inv_mul]
  rw [e, ← gram_matVec_getD n J hJ.2 _ i (by rw [hJ.1]; exact hi), matVec_getD, dot_smul_right,
    ← matVec_getD, hcert]

/-! ### ConFIG -/

theorem unitRows_wf (J : Mat α) (m n : Nat) (hJ : MatWF J m n) (d : Vec α) (hd : d.length = m) :
    MatWF (List.zipWith (fun row di => row.map (· / di)) J d) m n := by
  refine ⟨by simp [hJ.1, hd], fun x hx => ?_⟩
  obtain ⟨i, hi, rfl⟩ := List.mem_iff_getElem.mp hx
  rw [List.getElem_zipWith, List.length_map]
  exact hJ.2 _ (List.getElem_mem _)

theorem unitRows_getD (J : Mat α) (d : Vec α) (i : Nat) (hi : i < J.length) (hi' : i < d.length) :
    (List.zipWith (fun row di => row.map (· / di)) J d).getD i [] =
      (J.getD i []).map (· / d.getD i 0) := by
  simp [List.getD_eq_getElem?_getD, List.getElem?_zipWith, List.getElem?_eq_getElem hi,
    List.getElem?_eq_getElem hi']

theorem config_cosines_aux (J : Mat α) (m n : Nat) (hJ : MatWF J m n) (d w : Vec α)
    (hd : d.length = m) (hw : w.length = m) (hdpos : ∀ x ∈ d, 0 < x) (hwpos : ∀ x ∈ w, 0 < x)
    (U : Mat α) (hU : U = List.zipWith (fun row di => row.map (· / di)) J d) (y : Vec α)
    (hc : matVec (gram U) y = w) (best : Vec α) (hbest : best = combine n U y)
    (hbb : dot best best ≠ 0) :
    0 < (J.map fun row => dot row best).sum / dot best best ∧ ∀ i, i < m →
      dot ((J.getD i []).map (· / d.getD i 0))
        (smul ((J.map fun row => dot row best).sum / dot best best) best) =
      (J.map fun row => dot row best).sum / dot best best * w.getD i 0 := by
  have hUwf : MatWF U m n := hU ▸ unitRows_wf J m n hJ d hd
  have hUi : ∀ i, i < m → U.getD i [] = (J.getD i []).map (· / d.getD i 0) := by
    intro i hi
    rw [hU, unitRows_getD J d i (by rw [hJ.1]; exact hi) (by omega)]
  have hproj : ∀ i, i < m → dot (U.getD i []) best = w.getD i 0 := by
    intro i hi
    rw [hbest, ← gram_matVec_getD n U hUwf.2 y i (by rw [hUwf.1]; exact hi), hc]
  have hJi : ∀ i, i < m → dot (J.getD i []) best = d.getD i 0 * w.getD i 0 := by
    intro i hi
    have hdi : 0 < d.getD i 0 := hdpos _ (getD_mem d 0 i (by omega))
    have e : J.getD i [] = smul (d.getD i 0) (U.getD i []) := by
      rw [hUi i hi, smul, List.map_map]
      conv_lhs => rw [← List.map_id (J.getD i [])]
      apply List.map_congr_left
      intro x _
      simp only [id, Function.comp]
      field_simp
    rw [e, dot_smul_left, hproj i hi]
  have hlen : (J.map fun row => dot row best).sum = ∑ i : Fin m, d.getD i 0 * w.getD i 0 := by
    rw [list_sum_eq_sum m _ (by simp [hJ.1])]
    apply Finset.sum_congr rfl
    intro i _
    rw [getD_map_lt _ J i (by rw [hJ.1]; exact i.2) [] 0, hJi i i.2]
  have hmpos : 0 < m := by
    by_contra h0
    have hm0 : m = 0 := by omega
    subst hm0
    have hnil : U = [] := List.eq_nil_of_length_eq_zero hUwf.1
    apply hbb
    rw [hbest, hnil, combine_nil_left, dot_zeros_left]
  have hlenpos : 0 < (J.map fun row => dot row best).sum := by
    rw [hlen]
    apply Finset.sum_pos
    · intro i _
      exact mul_pos (hdpos _ (getD_mem d 0 i (by omega))) (hwpos _ (getD_mem w 0 i (by omega)))
    · exact ⟨⟨0, hmpos⟩, Finset.mem_univ _⟩
  have hbbpos : 0 < dot best best := lt_of_le_of_ne (dot_self_nonneg best) (Ne.symm hbb)
  refine ⟨div_pos hlenpos hbbpos, fun i hi => ?_⟩
  rw [← hUi i hi, dot_smul_right, hproj i hi]

theorem config_length_aux (J : Mat α) (best : Vec α) (hbb : dot best best ≠ 0) (t : α)
    (ht : t = (J.map fun row => dot row best).sum / dot best best) :
    dot (smul t best) (smul t best) = (J.map fun row => dot row (smul t best)).sum := by
  simp only [dot_smul_right, dot_smul_left]
  rw [List.sum_map_mul_left, ht]
  field_simp

theorem config_length_zero (J : Mat α) (n : Nat) :
    dot (zeros n : Vec α) (zeros n) = (J.map fun row => dot row (zeros n)).sum := by
  simp [dot_zeros_right]

/-! ### Aligned-MTL -/

theorem alignedCert_spec (M vecs : Mat α) (sigma : Vec α) (h : alignedCert M vecs sigma = true) :
    vecs.length = sigma.length ∧ (∀ s ∈ sigma, 0 < s) ∧
    (∀ i j, i < vecs.length → j < vecs.length →
      dot (vecs.getD i []) (vecs.getD j []) = if i = j then 1 else 0) ∧
    (∀ a b, a < M.length → b < M.length → (M.getD a []).getD b 0 =
      (List.zipWith (fun v s => s * s * v.getD a 0 * v.getD b 0) vecs sigma).sum) := by
  simp only [alignedCert, Bool.and_eq_true, beq_iff_eq, List.all_eq_true, decide_eq_true_eq] at h
  obtain ⟨⟨⟨h1, h2⟩, h3⟩, h4⟩ := h
  refine ⟨h1, h2, fun i j hi hj => ?_, fun a b ha hb => ?_⟩
  · have e1 : (vecs.getD i [], i) ∈ vecs.zipIdx := by
      rw [List.mk_mem_zipIdx_iff_getElem?]
      simp [List.getD_eq_getElem?_getD, List.getElem?_eq_getElem hi]
    have e2 : (vecs.getD j [], j) ∈ vecs.zipIdx := by
      rw [List.mk_mem_zipIdx_iff_getElem?]
      simp [List.getD_eq_getElem?_getD, List.getElem?_eq_getElem hj]
    exact h3 _ e1 _ e2
  · exact h4 a (List.mem_range.mpr ha) b (List.mem_range.mpr hb)

theorem toFn_oneHot_imp (m a : Nat) (j : Fin m) :
    toFn m (oneHot m a : Vec α) j = if (j : Nat) = a then 1 else 0 := by
  simp [toFn, oneHot, List.getD_eq_getElem?_getD, List.getElem?_range j.2]

theorem dot_oneHot (v : Vec α) (m a : Nat) (ha : a < m) (hv : v.length = m) :
    dot v (oneHot m a) = v.getD a 0 := by
  rw [dot_eq_sum_left m v _ hv.le]
  have : ∀ j : Fin m, v.getD j 0 * (oneHot m a : Vec α).getD j 0 =
      if j = (⟨a, ha⟩ : Fin m) then v.getD a 0 else 0 := by
    intro j
    have := toFn_oneHot_imp (α := α) m a j
    rw [toFn_apply] at this
    rw [this]
    by_cases hj : (j : Nat) = a
    · have : j = (⟨a, ha⟩ : Fin m) := Fin.ext hj
      simp [hj, this]
    · have : j ≠ (⟨a, ha⟩ : Fin m) := fun e => hj (congrArg Fin.val e)
      simp [hj, this]
  simp only [this]
  simp

/-- the balance transformation applied to `w`, entry-wise -/
theorem toFn_alignedB (vecs : Mat α) (sigma : Vec α) (k m : Nat) (hk : vecs.length = k)
    (hs : sigma.length = k) (hv : ∀ v ∈ vecs, v.length = m) (c : α) (w : Vec α) :
    toFn m (vsum m (List.zipWith (fun v s => smul (c / s * dot v w) v) vecs sigma)) =
      fun a => ∑ i : Fin k, (c / toFn k sigma i * dot (vecs.getD i []) w) * toMat k m vecs i a := by
  have hlen : (List.zipWith (fun v s => smul (c / s * dot v w) v) vecs sigma).length = k := by
    simp [hk, hs]
  have hall : ∀ x ∈ List.zipWith (fun v s => smul (c / s * dot v w) v) vecs sigma,
      x.length = m := by
    intro x hx
    obtain ⟨i, hi, rfl⟩ := List.mem_iff_getElem.mp hx
    rw [List.getElem_zipWith, smul_length]
    exact hv _ (List.getElem_mem _)
  rw [toFn_vsum k m _ hlen hall]
  funext a
  rw [Finset.sum_apply]
  apply Finset.sum_congr rfl
  intro i _
  have hi1 : (i : Nat) < vecs.length := by omega
  have hi2 : (i : Nat) < sigma.length := by omega
  have e : (List.zipWith (fun v s => smul (c / s * dot v w) v) vecs sigma).getD i [] =
      smul (c / sigma.getD i 0 * dot (vecs.getD i []) w) (vecs.getD i []) := by
    simp [List.getD_eq_getElem?_getD, List.getElem?_zipWith, List.getElem?_eq_getElem hi1,
      List.getElem?_eq_getElem hi2]
  rw [e, toFn_smul]
  rfl

theorem alignedB_length (vecs : Mat α) (sigma : Vec α) (m : Nat)
    (hv : ∀ v ∈ vecs, v.length = m) (c : α) (w : Vec α) :
    (vsum m (List.zipWith (fun v s => smul (c / s * dot v w) v) vecs sigma)).length = m := by
  apply vsum_length
  intro x hx
  obtain ⟨i, hi, rfl⟩ := List.mem_iff_getElem.mp hx
  rw [List.getElem_zipWith, smul_length]
  exact hv _ (List.getElem_mem _)

theorem alignedB_add (vecs : Mat α) (sigma : Vec α) (m : Nat) (hs : vecs.length = sigma.length)
    (hv : ∀ v ∈ vecs, v.length = m) (c : α) (w₁ w₂ : Vec α) (hw : w₁.length = w₂.length) :
    vsum m (List.zipWith (fun v s => smul (c / s * dot v (vadd w₁ w₂)) v) vecs sigma) =
      vadd (vsum m (List.zipWith (fun v s => smul (c / s * dot v w₁) v) vecs sigma))
        (vsum m (List.zipWith (fun v s => smul (c / s * dot v w₂) v) vecs sigma)) := by
  have l1 := alignedB_length vecs sigma m hv c w₁
  have l2 := alignedB_length vecs sigma m hv c w₂
  apply toFn_injective m _ _ (alignedB_length vecs sigma m hv c _)
    (by rw [vadd_length _ _ (by omega)]; exact l1)
  rw [toFn_vadd m _ _ (by omega), toFn_alignedB vecs sigma sigma.length m hs rfl hv,
    toFn_alignedB vecs sigma sigma.length m hs rfl hv,
    toFn_alignedB vecs sigma sigma.length m hs rfl hv]
  funext a
  simp only [Pi.add_apply, dot_vadd_right _ _ _ hw]
  rw [← Finset.sum_add_distrib]
  apply Finset.sum_congr rfl
  intro i _
  ring

theorem gram_length (J : Mat α) : (gram J).length = J.length := by simp [gram]

theorem gram_getD_getD (J : Mat α) (a b : Nat) (ha : a < J.length) :
    ((gram J).getD a []).getD b 0 = dot (J.getD a []) (J.getD b []) := by
  rw [gram_getD_imp J a ha, matVec_getD, dot_comm']

theorem aligned_matrix_identity {m : Nat} (V : Matrix (Fin m) (Fin m) α) (σ : Fin m → α) (c : α)
    (hσ : ∀ i, σ i ≠ 0) (hV : V * Vᵀ = 1) (G B : Matrix (Fin m) (Fin m) α)
    (hG : G = Vᵀ * diagonal (fun i => σ i * σ i) * V)
    (hB : B = Vᵀ * diagonal (fun i => c / σ i) * V) :
    Bᵀ * G * B = (c * c) • (1 : Matrix (Fin m) (Fin m) α) := by
  have hV' : Vᵀ * V = 1 := mul_eq_one_comm.mp hV
  have hBt : Bᵀ = B := by
    rw [hB]
    simp only [transpose_mul, diagonal_transpose, transpose_transpose, Matrix.mul_assoc]
  have e : ∀ X : Matrix (Fin m) (Fin m) α, V * (Vᵀ * X) = X := fun X => by
    rw [← Matrix.mul_assoc, hV, Matrix.one_mul]
  have hD : ∀ X : Matrix (Fin m) (Fin m) α,
      diagonal (fun i => c / σ i) * (diagonal (fun i => σ i * σ i) *
        (diagonal (fun i => c / σ i) * X)) = (c * c) • X := by
    intro X
    rw [← Matrix.mul_assoc, ← Matrix.mul_assoc, diagonal_mul_diagonal, diagonal_mul_diagonal]
    have : (fun i => c / σ i * (σ i * σ i) * (c / σ i)) = fun _ : Fin m => c * c := by
      funext i
      have := hσ i
      field_simp
    rw [this]
    ext i j
    simp [diagonal_mul]
  rw [hBt, hG, hB]
  simp only [Matrix.mul_assoc, e, hD]
  rw [Matrix.mul_smul, hV']

theorem dot_combine_eq {m n : Nat} (A : Matrix (Fin m) (Fin n) α) (B : Matrix (Fin m) (Fin m) α)
    (a b : Fin m) : (Bᵀ a ᵥ* A) ⬝ᵥ (Bᵀ b ᵥ* A) = (Bᵀ * (A * Aᵀ) * B) a b := by
  have : (Bᵀ * (A * Aᵀ) * B) = (Bᵀ * A) * (Bᵀ * A)ᵀ := by
    rw [transpose_mul, transpose_transpose]
    simp only [Matrix.mul_assoc]
  rw [this]
  rfl

theorem aligned_balanced_aux (J : Mat α) (m n : Nat) (hJ : MatWF J m n) (vecs : Mat α)
    (sigma : Vec α) (hfull : vecs.length = m) (hv : ∀ v ∈ vecs, v.length = m)
    (hcert : alignedCert (gram J) vecs sigma = true) (c : α) (a b : Nat) (ha : a < m) (hb : b < m) :
    dot (combine n J (vsum m (List.zipWith (fun v s => smul (c / s * dot v (oneHot m a)) v)
          vecs sigma)))
        (combine n J (vsum m (List.zipWith (fun v s => smul (c / s * dot v (oneHot m b)) v)
          vecs sigma))) =
      if a = b then c * c else 0 := by
  obtain ⟨h1, h2, h3, h4⟩ := alignedCert_spec _ _ _ hcert
  have hs : sigma.length = m := by omega
  have hVwf : MatWF vecs m m := ⟨hfull, hv⟩
  have hσ : ∀ i : Fin m, toFn m sigma i ≠ 0 := fun i =>
    (h2 _ (getD_mem sigma 0 i (by rw [hs]; exact i.2))).ne'
  have hV : toMat m m vecs * (toMat m m vecs)ᵀ = 1 := by
    ext i j
    rw [← dot_rows vecs m m hVwf i j, h3 i j (by rw [hfull]; exact i.2) (by rw [hfull]; exact j.2),
      Matrix.one_apply]
    simp only [Fin.ext_iff]
  have hG : toMat m n J * (toMat m n J)ᵀ =
      (toMat m m vecs)ᵀ * diagonal (fun i => toFn m sigma i * toFn m sigma i) * toMat m m vecs := by
    ext i j
    rw [← dot_rows J m n hJ i j, ← gram_getD_getD J i j (by rw [hJ.1]; exact i.2),
      h4 i j (by rw [gram_length, hJ.1]; exact i.2) (by rw [gram_length, hJ.1]; exact j.2),
      list_sum_eq_sum m _ (by simp [hfull, hs]), Matrix.mul_apply]
    apply Finset.sum_congr rfl
    intro k _
    have hk1 : (k : Nat) < vecs.length := by rw [hfull]; exact k.2
    have hk2 : (k : Nat) < sigma.length := by rw [hs]; exact k.2
    have e : (List.zipWith (fun v s => s * s * v.getD i 0 * v.getD j 0) vecs sigma).getD k 0 =
        sigma.getD k 0 * sigma.getD k 0 * (vecs.getD k []).getD i 0 * (vecs.getD k []).getD j 0 := by
      simp [List.getD_eq_getElem?_getD, List.getElem?_zipWith, List.getElem?_eq_getElem hk1,
        List.getElem?_eq_getElem hk2]
    rw [e, Matrix.mul_diagonal]
    simp only [Matrix.transpose_apply, toMat_apply, toFn_apply]
    ring
  have hW : ∀ (e : Nat) (he : e < m),
      toFn m (vsum m (List.zipWith (fun v s => smul (c / s * dot v (oneHot m e)) v) vecs sigma)) =
      fun x => ((toMat m m vecs)ᵀ * diagonal (fun i => c / toFn m sigma i) * toMat m m vecs) x
        ⟨e, he⟩ := by
    intro e he
    rw [toFn_alignedB vecs sigma m m hfull hs hv]
    funext x
    rw [Matrix.mul_apply]
    apply Finset.sum_congr rfl
    intro k _
    have hk1 : (k : Nat) < vecs.length := by rw [hfull]; exact k.2
    rw [Matrix.mul_diagonal, dot_oneHot _ m e he (hv _ (getD_mem vecs [] k hk1))]
    simp only [Matrix.transpose_apply, toMat_apply]
    ring
  rw [dot_eq_left n _ _ (combine_length_imp n J hJ.2 _).le,
    toFn_combine J m n hJ _ (alignedB_length vecs sigma m hv c _),
    toFn_combine J m n hJ _ (alignedB_length vecs sigma m hv c _), hW a ha, hW b hb]
  have key := aligned_matrix_identity (toMat m m vecs) (toFn m sigma) c hσ hV _ _ hG rfl
  have := dot_combine_eq (toMat m n J)
    ((toMat m m vecs)ᵀ * diagonal (fun i => c / toFn m sigma i) * toMat m m vecs) ⟨a, ha⟩ ⟨b, hb⟩
  rw [key] at this
  refine Eq.trans this ?_
  simp [Matrix.smul_apply, Matrix.one_apply, Fin.ext_iff]

end Tjd.Agg
