/- helper lemmas for TjdProps/C10b.lean -/
import Mathlib.Algebra.Order.Field.Basic
import TjdModel.Agg.Spec2
import TjdLemmas.EquivLemmas
import TjdLemmas.HomogLemmas
import TjdLemmas.RobustLemmas
import TjdLemmas.FWLemmas
import TjdLemmas.ImpartialLemmas
namespace Tjd.Agg.PermL
open Tjd Tjd.Agg Tjd.Agg.Eqv
set_option linter.unusedSectionVars false
set_option linter.unusedSimpArgs false
set_option linter.unusedVariables false

variable {α : Type} [Field α] [LinearOrder α] [IsStrictOrderedRing α]

/-! ### Krum -/

theorem krumScores_scale (D : Mat α) (f : Nat) (t : α) (ht : 0 < t) :
    krumScores (D.map (smul t)) f = (krumScores D f).map (t * ·) := by
  unfold krumScores smallest
  simp only [List.length_map, List.map_map]
  apply List.map_congr_left
  intro row _
  simp only [Function.comp]
  show ((sortAsc (row.map (t * ·))).take _ |>.drop 1).sum = _
  rw [Homog.sortAsc_map_mul t ht, ← List.map_take, ← List.map_drop, Homog.list_sum_map_mul]

theorem lowestK_fst_scale (scores : Vec α) (k : Nat) (t : α) (ht : 0 < t) :
    (lowestK (scores.map (t * ·)) k).1 = (lowestK scores k).1 := by
  rw [lowestK_fst, lowestK_fst]
  unfold krumSorted
  have hz : (scores.map (t * ·)).zipIdx = scores.zipIdx.map (Prod.map (t * ·) id) := by
    rw [List.zipIdx_map]
  have hs : (scores.zipIdx.map (Prod.map (t * ·) id)).mergeSort (fun a b => decide (a.1 ≤ b.1)) =
      (scores.zipIdx.mergeSort (fun a b => decide (a.1 ≤ b.1))).map (Prod.map (t * ·) id) := by
    symm
    apply List.map_mergeSort
    intro a _ b _
    rw [decide_eq_decide]
    exact (mul_le_mul_iff_right₀ ht).symm
  rw [hz, hs, ← List.map_take, List.map_map]
  rfl

theorem krumWeights_scale (D : Mat α) (f k : Nat) (t : α) (ht : 0 < t) :
    (krumWeights (D.map (smul t)) f k).1 = (krumWeights D f k).1 := by
  rw [krumWeights_fst, krumWeights_fst, krumScores_scale D f t ht, lowestK_fst_scale _ k t ht,
    List.length_map]

/-! ### permV basics -/
section perm
variable [Inhabited α]

theorem permV_getD0 (p : List Nat) (m : Nat) (hp : p.Perm (List.range m)) (v : Vec α)
    (hv : v.length = m) (k : Nat) (hk : k < p.length) :
    (permV p v).getD k 0 = v.getD p[k] 0 := by
  rw [permV_getD p v k hk 0, getD_congr_default v default 0 _
    (by rw [hv]; exact perm_lt hp _ (List.getElem_mem _))]

theorem permV_smul (p : List Nat) (m : Nat) (hp : p.Perm (List.range m)) (c : α) (v : Vec α)
    (hv : v.length = m) : permV p (smul c v) = smul c (permV p v) := by
  simp only [permV, smul, List.map_map]
  apply List.map_congr_left
  intro i hi
  have hi' : i < v.length := by rw [hv]; exact perm_lt hp i hi
  simp only [Function.comp]
  rw [getD_eq_getElem' _ _ i (by simpa using hi'), getD_eq_getElem' _ _ i hi', List.getElem_map]

theorem permV_vadd (p : List Nat) (m : Nat) (hp : p.Perm (List.range m)) (x y : Vec α)
    (hx : x.length = m) (hy : y.length = m) :
    permV p (vadd x y) = vadd (permV p x) (permV p y) := by
  simp only [permV, vadd]
  rw [zipWith_map_self]
  apply List.map_congr_left
  intro i hi
  have hi' : i < m := perm_lt hp i hi
  rw [getD_eq_getElem' _ _ i (by simp [hx, hy, hi']), getD_eq_getElem' _ _ i (by omega),
    getD_eq_getElem' _ _ i (by omega), List.getElem_zipWith]

theorem zipWith_congr_mem {β γ δ : Type} (f g : β → γ → δ) : ∀ (l : List β) (l' : List γ),
    (∀ a ∈ l, ∀ b, f a b = g a b) → List.zipWith f l l' = List.zipWith g l l'
  | [], _, _ => by simp
  | _ :: _, [], _ => by simp
  | a :: l, b :: l', h => by
    rw [List.zipWith_cons_cons, List.zipWith_cons_cons, h a (by simp) b,
      zipWith_congr_mem f g l l' (fun a' ha' b' => h a' (by simp [ha']) b')]

/-! ### Aligned-MTL -/

theorem alignedCert_of_spec (M vecs : Mat α) (sigma : Vec α)
    (h1 : vecs.length = sigma.length) (h2 : ∀ s ∈ sigma, 0 < s)
    (h3 : ∀ i j, i < vecs.length → j < vecs.length →
      dot (vecs.getD i []) (vecs.getD j []) = if i = j then 1 else 0)
    (h4 : ∀ a b, a < M.length → b < M.length → (M.getD a []).getD b 0 =
      (List.zipWith (fun v s => s * s * v.getD a 0 * v.getD b 0) vecs sigma).sum) :
    alignedCert M vecs sigma = true := by
  simp only [alignedCert, Bool.and_eq_true, beq_iff_eq, List.all_eq_true, decide_eq_true_eq]
  refine ⟨⟨⟨h1, h2⟩, ?_⟩, ?_⟩
  · rintro ⟨v, i⟩ hv ⟨w, j⟩ hw
    rw [List.mk_mem_zipIdx_iff_getElem?] at hv hw
    obtain ⟨hi, rfl⟩ := List.getElem?_eq_some_iff.mp hv
    obtain ⟨hj, rfl⟩ := List.getElem?_eq_some_iff.mp hw
    have := h3 i j hi hj
    rwa [getD_eq_getElem' _ _ i hi, getD_eq_getElem' _ _ j hj] at this
  · intro a ha b hb
    exact h4 a b (List.mem_range.mp ha) (List.mem_range.mp hb)

theorem gram_rows_length (J : Mat α) : ∀ row ∈ gram J, row.length = J.length := by
  intro row hrow
  obtain ⟨r, _, rfl⟩ := List.mem_map.mp hrow
  simp

theorem alignedCert_perm (J : Mat α) (m n : Nat) (hJ : MatWF J m n) (vecs : Mat α) (sigma : Vec α)
    (hv : ∀ v ∈ vecs, v.length = m) (p : List Nat) (hp : p.Perm (List.range m))
    (hcert : alignedCert (gram J) vecs sigma = true) :
    alignedCert (gram (permV p J)) (vecs.map (permV p)) sigma = true := by
  have hpl := perm_length hp
  have hgl : (gram J).length = m := by rw [Eqv.gram_length, hJ.1]
  have hgr : ∀ row ∈ gram J, row.length = m := by
    intro row hrow; rw [gram_rows_length J row hrow, hJ.1]
  obtain ⟨h1, h2, h3, h4⟩ := alignedCert_spec _ _ _ hcert
  apply alignedCert_of_spec
  · rw [List.length_map]; exact h1
  · exact h2
  · intro i j hi hj
    rw [List.length_map] at hi hj
    rw [getD_map_row (permV p) vecs i hi [] [], getD_map_row (permV p) vecs j hj [] [],
      dot_permV p m hp _ _ (hv _ (getD_mem vecs _ i hi)) (hv _ (getD_mem vecs _ j hj))]
    exact h3 i j hi hj
  · intro a b ha hb
    have hJ' := permV_matWF J m n hJ p hp
    rw [Eqv.gram_length, hJ'.1] at ha hb
    have hpa : p[a] < m := perm_lt hp _ (List.getElem_mem _)
    have hpb : p[b] < m := perm_lt hp _ (List.getElem_mem _)
    rw [gram_row_perm' J m n hJ p (perm_lt hp),
      permV_getD_getD (gram J) m hgl hgr p hp a b (by omega) (by omega),
      h4 p[a] p[b] (by omega) (by omega), List.zipWith_map_left]
    congr 1
    apply zipWith_congr_mem
    intro v hvm s
    rw [permV_getD0 p m hp v (hv v hvm) a (by omega), permV_getD0 p m hp v (hv v hvm) b (by omega)]

theorem aligned_row_perm' (J : Mat α) (m n : Nat) (hJ : MatWF J m n) (vecs : Mat α)
    (sigma w : Vec α) (hv : ∀ v ∈ vecs, v.length = m) (hw : w.length = m) (p : List Nat)
    (hp : p.Perm (List.range m)) (hcert : alignedCert (gram J) vecs sigma = true) (hs : sigma ≠ []) :
    alignedWeights (permV p J) (vecs.map (permV p)) sigma (permV p w) =
      (alignedWeights J vecs sigma w).map (permV p) := by
  have hpl := perm_length hp
  have hJ' := permV_matWF J m n hJ p hp
  have hcert' := alignedCert_perm J m n hJ vecs sigma hv p hp hcert
  have hse : sigma.isEmpty = false := by
    cases sigma with
    | nil => exact absurd rfl hs
    | cons => rfl
  unfold alignedWeights
  simp only [hse, hcert, hcert', if_true, Bool.false_eq_true, if_false, Option.map_some,
    Eqv.gram_length, hJ.1, hJ'.1]
  congr 1
  rw [permV_vsum m _ (fun x hx => by
      obtain ⟨i, hi, rfl⟩ := List.mem_iff_getElem.mp hx
      rw [List.getElem_zipWith, smul_length]
      exact hv _ (List.getElem_mem _)) p hp,
    List.zipWith_map_left, List.map_zipWith]
  congr 1
  apply zipWith_congr_mem
  intro v hvm s
  rw [dot_permV p m hp v w (hv v hvm) hw, permV_smul p m hp _ v (hv v hvm)]

/-! ### ConFIG / IMTL-G -/

theorem permV_inj (m : Nat) (p : List Nat) (hp : p.Perm (List.range m)) (x y : Vec α)
    (hx : x.length = m) (hy : y.length = m) (h : permV p x = permV p y) : x = y := by
  apply vec_ext m x y hx hy
  intro k hk
  have hkp : k ∈ p := hp.mem_iff.mpr (List.mem_range.mpr hk)
  have ht : p.idxOf k < p.length := List.idxOf_lt_length_iff.mpr hkp
  have hpt : p[p.idxOf k] = k := List.getElem_idxOf ht
  have : (permV p x).getD (p.idxOf k) 0 = (permV p y).getD (p.idxOf k) 0 := by rw [h]
  rwa [permV_getD0 p m hp x hx _ ht, permV_getD0 p m hp y hy _ ht, hpt] at this

theorem permV_map (p : List Nat) (m : Nat) (hp : p.Perm (List.range m)) (f : α → α) (v : Vec α)
    (hv : v.length = m) : permV p (v.map f) = (permV p v).map f := by
  simp only [permV, List.map_map]
  apply List.map_congr_left
  intro i hi
  have hi' : i < v.length := by rw [hv]; exact perm_lt hp i hi
  simp only [Function.comp]
  rw [getD_eq_getElem' _ _ i (by simpa using hi'), getD_eq_getElem' _ _ i hi', List.getElem_map]

theorem permV_zeros (p : List Nat) (m : Nat) (hp : p.Perm (List.range m)) :
    permV p (zeros m : Vec α) = zeros m := by
  have hpl := perm_length hp
  apply List.ext_getElem (by rw [permV_length, hpl, zeros_length])
  intro t h1 h2
  rw [permV_getElem, getD_eq_getElem' _ _ _ (by
    rw [zeros_length]; exact perm_lt hp _ (List.getElem_mem _))]
  simp [zeros]

theorem unitRows_permV (J : Mat α) (m n : Nat) (hJ : MatWF J m n) (d : Vec α) (hd : d.length = m)
    (p : List Nat) (hp : p.Perm (List.range m)) :
    unitRows (permV p J) (permV p d) = permV p (unitRows J d) := by
  simp only [unitRows, permV]
  rw [zipWith_map_self]
  apply List.map_congr_left
  intro i hi
  have hi' : i < m := perm_lt hp i hi
  have hJ1 := hJ.1
  rw [getD_eq_getElem' J _ i (by omega), getD_eq_getElem' d _ i (by omega),
    getD_eq_getElem' _ _ i (by simp [hJ.1, hd, hi']), List.getElem_zipWith]

/-- a solution of the conjugated system is the permuted solution of the original one -/
theorem solution_perm (G : Mat α) (m : Nat) (hG1 : G.length = m) (hG2 : ∀ row ∈ G, row.length = m)
    (b y y' : Vec α) (hb : b.length = m) (hy : y.length = m) (hy' : y'.length = m)
    (p : List Nat) (hp : p.Perm (List.range m))
    (huniq : ∀ z z' : Vec α, z.length = m → z'.length = m → matVec G z = b → matVec G z' = b → z = z')
    (h : matVec G y = b) (h' : matVec (permV p (G.map (permV p))) y' = permV p b) :
    y' = permV p y := by
  obtain ⟨y0, hy0, rfl⟩ := permV_surj m p hp y' hy'
  rw [matVec_permV G m hG1 hG2 y0 hy0 p hp] at h'
  have := permV_inj m p hp _ _ (by rw [matVec_length, hG1]) hb h'
  rw [huniq y0 y hy0 hy this h]

theorem config_row_perm' (J : Mat α) (m n : Nat) (hJ : MatWF J m n) (d w : Vec α)
    (hd : d.length = m) (hw : w.length = m) (p : List Nat) (hp : p.Perm (List.range m))
    (huniq : ∀ y y' : Vec α, y.length = m → y'.length = m →
        matVec (gram (unitRows J d)) y = w → matVec (gram (unitRows J d)) y' = w → y = y')
    (x x' : Vec α) (h : configVec J d w n = some x)
    (h' : configVec (permV p J) (permV p d) (permV p w) n = some x') : x' = x := by
  have hpl := perm_length hp
  have hU := unitRows_matWF J m n hJ d hd
  obtain ⟨y, hy, hcheck, hx⟩ := configVec_cases J d w n x h
  obtain ⟨y', hy', hcheck', hx'⟩ := configVec_cases _ _ _ n x' h'
  have hyl : y.length = m := by rw [Eqv.solve_length _ _ _ _ hy, hw]
  have hyl' : y'.length = m := by rw [Eqv.solve_length _ _ _ _ hy', permV_length, hpl]
  rw [unitRows_permV J m n hJ d hd p hp] at hcheck' hx'
  have hgl : (gram (unitRows J d)).length = m := by rw [Eqv.gram_length, hU.1]
  have hgr : ∀ row ∈ gram (unitRows J d), row.length = m := by
    intro row hrow; rw [gram_rows_length _ row hrow, hU.1]
  rw [gram_row_perm' _ m n hU p (perm_lt hp)] at hcheck'
  have hyy := solution_perm _ m hgl hgr w y y' hw hyl hyl' p hp huniq hcheck hcheck'
  subst hyy
  rw [combine_row_perm' _ m n hU y hyl p hp] at hx'
  have hlen : ((permV p J).map fun row => dot row (combine n (unitRows J d) y)).sum =
      (J.map fun row => dot row (combine n (unitRows J d) y)).sum :=
    ((permV_perm p J (by rw [hJ.1]; exact hp)).map _).sum_eq
  rw [hlen] at hx'
  rcases hx with ⟨hb, rfl⟩ | ⟨hb, rfl⟩ <;> rcases hx' with ⟨hb', rfl⟩ | ⟨hb', rfl⟩
  · rfl
  · exact absurd hb hb'
  · exact absurd hb' hb
  · rfl

theorem imtlg_row_perm' (J : Mat α) (m n : Nat) (hJ : MatWF J m n) (d : Vec α)
    (hd : d.length = m) (guard : α) (p : List Nat) (hp : p.Perm (List.range m))
    (huniq : ∀ v v' : Vec α, v.length = m → v'.length = m → matVec (gram J) v = d →
        matVec (gram J) v' = d → v = v')
    (w w' : Vec α) (h : imtlgWeights J d guard = some w)
    (h' : imtlgWeights (permV p J) (permV p d) guard = some w') :
    combine n (permV p J) w' = combine n J w := by
  have hpl := perm_length hp
  obtain ⟨v, hvl, hv, hwv⟩ := Homog.imtlg_spec J d guard w h
  obtain ⟨v', hvl', hv', hwv'⟩ := Homog.imtlg_spec _ _ guard w' h'
  rw [permV_length, hpl] at hvl' hwv'
  rw [hd] at hvl hwv
  have hgl : (gram J).length = m := by rw [Eqv.gram_length, hJ.1]
  have hgr : ∀ row ∈ gram J, row.length = m := by
    intro row hrow; rw [gram_rows_length _ row hrow, hJ.1]
  rw [gram_row_perm' _ m n hJ p (perm_lt hp)] at hv'
  have hvv := solution_perm _ m hgl hgr d v v' hd hvl hvl' p hp huniq hv hv'
  subst hvv
  have hperm := permV_perm p v (by rw [hvl]; exact hp)
  have e1 : (permV p v).sum = v.sum := hperm.sum_eq
  have e2 : ((permV p v).map absV).sum = (v.map absV).sum := (hperm.map _).sum_eq
  rw [e1, e2] at hwv'
  have hww : w' = permV p w := by
    rw [hwv, hwv']
    split_ifs
    · exact (permV_zeros p m hp).symm
    · exact (permV_map p m hp _ v hvl).symm
  have hwl : w.length = m := by
    rw [hwv]; split_ifs
    · exact zeros_length m
    · rw [List.length_map, hvl]
  rw [hww]
  exact combine_row_perm' J m n hJ w hwl p hp

end perm

/-! ### Frank–Wolfe step -/

theorem argminGap_snd (xs : List α) : (argminGap xs).2 =
    if ((xs.zipIdx.filter (fun q => q.2 ≠ (argminGap xs).1)).map (·.1)).isEmpty then 1
    else vmin ((xs.zipIdx.filter (fun q => q.2 ≠ (argminGap xs).1)).map (·.1)) 0 - vmin xs 0 := rfl

theorem argminGap_val (xs : List α) (h : xs ≠ []) : xs.getD (argminGap xs).1 0 = vmin xs 0 := by
  obtain ⟨hmem, hle⟩ := vmin_spec xs 0 h
  obtain ⟨hlt, hmin⟩ := argminGap_spec xs h
  apply le_antisymm
  · obtain ⟨i, hi, hx⟩ := List.mem_iff_getElem.mp hmem
    have := hmin i hi
    rwa [getD_eq_getElem' xs 0 i hi, hx] at this
  · exact hle _ (getD_mem xs 0 _ hlt)

theorem argminGap_strict (xs : List α) (hgap : 0 < (argminGap xs).2) (j : Nat) (hj : j < xs.length)
    (hne : j ≠ (argminGap xs).1) : xs.getD (argminGap xs).1 0 < xs.getD j 0 := by
  have hxs : xs ≠ [] := by intro h; rw [h] at hj; simp at hj
  rw [argminGap_val xs hxs]
  rw [argminGap_snd] at hgap
  have hmem : xs.getD j 0 ∈ (xs.zipIdx.filter (fun q => q.2 ≠ (argminGap xs).1)).map (·.1) := by
    rw [List.mem_map]
    refine ⟨(xs.getD j 0, j), ?_, rfl⟩
    rw [List.mem_filter]
    refine ⟨?_, by simpa using hne⟩
    rw [List.mk_mem_zipIdx_iff_getElem?]
    simp [List.getD_eq_getElem?_getD, List.getElem?_eq_getElem hj]
  generalize (xs.zipIdx.filter (fun q => q.2 ≠ (argminGap xs).1)).map (·.1) = others at hgap hmem
  have hne' : others ≠ [] := List.ne_nil_of_mem hmem
  have hie : others.isEmpty = false := by
    cases others with
    | nil => exact absurd rfl hne'
    | cons => rfl
  rw [hie] at hgap
  simp only [Bool.false_eq_true, if_false] at hgap
  have := (vmin_spec others 0 hne').2 _ hmem
  linarith

theorem argminGap_perm [Inhabited α] (xs : Vec α) (m : Nat) (hm : 0 < m) (hx : xs.length = m)
    (p : List Nat) (hp : p.Perm (List.range m)) (hgap : 0 < (argminGap xs).2) :
    ∃ hk : (argminGap (permV p xs)).1 < p.length,
      p[(argminGap (permV p xs)).1] = (argminGap xs).1 := by
  have hpl := perm_length hp
  have hyl : (permV p xs).length = m := by rw [permV_length, hpl]
  have hxs : xs ≠ [] := by intro h; rw [h] at hx; simp at hx; omega
  have hys : permV p xs ≠ [] := by intro h; rw [h] at hyl; simp at hyl; omega
  obtain ⟨hlt, _⟩ := argminGap_spec xs hxs
  obtain ⟨hlt', hmin'⟩ := argminGap_spec (permV p xs) hys
  rw [hyl] at hlt' hmin'
  refine ⟨by omega, ?_⟩
  by_contra hne
  have hpt : p[(argminGap (permV p xs)).1]'(by omega) < m := perm_lt hp _ (List.getElem_mem _)
  have h1 := argminGap_strict xs hgap _ (by rw [hx]; exact hpt) hne
  have hkp : (argminGap xs).1 ∈ p := hp.mem_iff.mpr (List.mem_range.mpr (by omega))
  have ht : p.idxOf (argminGap xs).1 < p.length := List.idxOf_lt_length_iff.mpr hkp
  have hpk : p[p.idxOf (argminGap xs).1] = (argminGap xs).1 := List.getElem_idxOf ht
  have h2 := hmin' (p.idxOf (argminGap xs).1) (by omega)
  rw [permV_getD0 p m hp xs hx _ (by omega), permV_getD0 p m hp xs hx _ ht, hpk] at h2
  exact absurd h1 (not_lt.mpr h2)

theorem oneHot_perm [Inhabited α] (m : Nat) (p : List Nat) (hp : p.Perm (List.range m)) (k : Nat)
    (hk : k < p.length) : (oneHot m k : Vec α) = permV p (oneHot m p[k]) := by
  have hpl := perm_length hp
  apply List.ext_getElem (by rw [permV_length, hpl, oneHot_length])
  intro j h1 h2
  have hj : j < m := by rwa [oneHot_length] at h1
  have hpj : p[j]'(by omega) < m := perm_lt hp _ (List.getElem_mem _)
  rw [permV_getElem]
  simp only [oneHot]
  rw [map_range_getD _ m _ hpj, List.getElem_map, List.getElem_range]
  have : (p[j]'(by omega) = p[k]) ↔ (j = k) := perm_inj hp j k (by omega) hk
  simp only [this]

theorem fwE_perm [Inhabited α] (G : Mat α) (m : Nat) (hG : SymmSquare G m) (a : Vec α)
    (ha : a.length = m) (p : List Nat) (hp : p.Perm (List.range m))
    (hgap : 0 < (argminGap (matVec G a)).2) :
    fwE (permV p (G.map (permV p))) (permV p a) = permV p (fwE G a) := by
  have hpl := perm_length hp
  unfold fwE fwT
  rw [permV_length, hpl, ha, matVec_permV G m hG.1 hG.2.1 a ha p hp]
  rcases Nat.eq_zero_or_pos m with hm | hm
  · subst hm
    have : p = [] := List.eq_nil_of_length_eq_zero hpl
    subst this
    simp [oneHot, permV]
  · obtain ⟨hk, hpk⟩ := argminGap_perm (matVec G a) m hm (by rw [matVec_length, hG.1]) p hp hgap
    rw [← hpk]
    exact oneHot_perm m p hp _ hk

theorem fwStep_row_perm' [Inhabited α] (G : Mat α) (m : Nat) (hG : SymmSquare G m) (a : Vec α)
    (ha : a.length = m) (p : List Nat) (hp : p.Perm (List.range m))
    (hgap : 0 < (argminGap (matVec G a)).2) :
    (fwStep (permV p (G.map (permV p))) (permV p a)).1 = permV p (fwStep G a).1 ∧
    (fwStep (permV p (G.map (permV p))) (permV p a)).2.1 = (fwStep G a).2.1 := by
  have hpl := perm_length hp
  have hE := fwE_perm G m hG a ha p hp hgap
  have hel : (fwE G a).length = m := by rw [fwE_length, ha]
  have hGG : fwG (permV p (G.map (permV p))) (permV p a) = fwG G a := by
    unfold fwG
    rw [hE, matVec_permV G m hG.1 hG.2.1 a ha p hp, matVec_permV G m hG.1 hG.2.1 _ hel p hp,
      dot_permV p m hp a _ ha (by rw [matVec_length, hG.1]),
      dot_permV p m hp a _ ha (by rw [matVec_length, hG.1]),
      dot_permV p m hp _ _ hel (by rw [matVec_length, hG.1])]
  rw [fwStep_fst, fwStep_fst, fwStep_snd, fwStep_snd, hGG, hE]
  refine ⟨?_, rfl⟩
  rw [permV_vadd p m hp _ _ (by rw [smul_length, ha]) (by rw [smul_length, hel]),
    permV_smul p m hp _ a ha, permV_smul p m hp _ _ hel]

/-! ### the MGDA loop -/

theorem vmin_le_mem (xs : List α) (d x : α) (hx : x ∈ xs) : vmin xs d ≤ x :=
  (vmin_spec xs d (List.ne_nil_of_mem hx)).2 x hx

theorem go_snd_le (G : Mat α) (eps : α) : ∀ (k : Nat) (a : Vec α) (mg : α),
    (mgdaWeights.go G eps k a mg).2 ≤ mg
  | 0, a, mg => le_of_eq rfl
  | k + 1, a, mg => by
    rw [Homog.mgda_go_succ]
    have h : vmin [mg, (fwStep G a).2.2, absV ((fwStep G a).2.1 - eps)] 1 ≤ mg :=
      vmin_le_mem _ _ _ (by simp)
    split_ifs
    · exact h
    · exact (go_snd_le G eps k _ _).trans h

theorem go_succ_margin (G : Mat α) (eps : α) (k : Nat) (a : Vec α) (mg : α) :
    (mgdaWeights.go G eps (k + 1) a mg).2 ≤
      vmin [mg, (fwStep G a).2.2, absV ((fwStep G a).2.1 - eps)] 1 := by
  rw [Homog.mgda_go_succ]
  split_ifs
  · exact le_rfl
  · exact go_snd_le G eps k _ _

theorem fwStep_margin_le_gap (G : Mat α) (a : Vec α) :
    (fwStep G a).2.2 ≤ (argminGap (matVec G a)).2 := by
  rw [Homog.fwStep_unfold]
  exact vmin_le_mem _ _ _ (by simp)

theorem go_perm [Inhabited α] (G : Mat α) (m : Nat) (hG : SymmSquare G m) (eps : α) (p : List Nat)
    (hp : p.Perm (List.range m)) : ∀ (k : Nat) (a : Vec α) (mg mgp : α), a.length = m →
    0 < (mgdaWeights.go G eps k a mg).2 →
    (mgdaWeights.go (permV p (G.map (permV p))) eps k (permV p a) mgp).1 =
      permV p (mgdaWeights.go G eps k a mg).1
  | 0, a, mg, mgp, _, _ => rfl
  | k + 1, a, mg, mgp, ha, hpos => by
    have hmg2 := lt_of_lt_of_le hpos (go_succ_margin G eps k a mg)
    have hstep : 0 < (fwStep G a).2.2 := lt_of_lt_of_le hmg2 (vmin_le_mem _ _ _ (by simp))
    have hgap := lt_of_lt_of_le hstep (fwStep_margin_le_gap G a)
    obtain ⟨h1, h2⟩ := fwStep_row_perm' G m hG a ha p hp hgap
    rw [Homog.mgda_go_succ] at hpos
    rw [Homog.mgda_go_succ, Homog.mgda_go_succ, h1, h2]
    by_cases hlt : (fwStep G a).2.1 < eps
    · rw [if_pos hlt, if_pos hlt]
    · rw [if_neg hlt] at hpos
      rw [if_neg hlt, if_neg hlt]
      exact go_perm G m hG eps p hp k _ _ _ (by rw [Eqv.fwStep_length, ha]) hpos

theorem permV_replicate [Inhabited α] (m : Nat) (p : List Nat) (hp : p.Perm (List.range m)) (c : α) :
    permV p (List.replicate m c) = List.replicate m c := by
  have hpl := perm_length hp
  apply List.ext_getElem (by rw [permV_length, hpl, List.length_replicate])
  intro t h1 h2
  rw [permV_getElem, getD_eq_getElem' _ _ _ (by
    rw [List.length_replicate]; exact perm_lt hp _ (List.getElem_mem _))]
  simp

theorem mgda_row_perm' [Inhabited α] (G : Mat α) (m : Nat) (hG : SymmSquare G m)
    (mInv epsilon : α) (K : Nat) (p : List Nat) (hp : p.Perm (List.range m))
    (hmargin : 0 < (mgdaWeights G m mInv epsilon K).2) :
    (mgdaWeights (permV p (G.map (permV p))) m mInv epsilon K).1 =
      permV p (mgdaWeights G m mInv epsilon K).1 := by
  rw [mgdaWeights_eq] at hmargin
  rw [mgdaWeights_eq, mgdaWeights_eq]
  conv_lhs => rw [← permV_replicate m p hp mInv]
  exact go_perm G m hG epsilon p hp K _ _ _ (List.length_replicate ..) hmargin

end Tjd.Agg.PermL
