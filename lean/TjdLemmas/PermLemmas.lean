/- helper lemmas for TjdProps/C10b.lean -/
import Mathlib.Algebra.Order.Field.Basic
import TjdModel.Agg.Spec2
import TjdLemmas.EquivLemmas
import TjdLemmas.HomogLemmas
namespace Tjd.Agg

end Tjd.Agg
