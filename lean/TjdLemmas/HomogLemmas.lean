/- helper lemmas for TjdProps/C11.lean -/
import Mathlib.Algebra.Order.Field.Basic
import TjdModel.Agg.Spec2
import TjdLemmas.QPLemmas
namespace Tjd.Agg

end Tjd.Agg
