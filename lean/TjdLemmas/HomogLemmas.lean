/- helper lemmas for TjdProps/C11.lean -/
import Mathlib.Algebra.Order.Field.Basic
import Mathlib.Algebra.BigOperators.Group.List.Basic
import Mathlib.Algebra.BigOperators.Ring.List
import Mathlib.Tactic.Ring
import Mathlib.Tactic.Linarith
import Mathlib.Tactic.FieldSimp
import TjdModel.Agg.Spec2
import TjdLemmas.QPLemmas
namespace Tjd.Agg.Homog
open Tjd Tjd.Agg
set_option linter.unusedSectionVars false
set_option linter.unusedSimpArgs false

variable {α : Type} [Field α] [LinearOrder α] [IsStrictOrderedRing α]

/-! ### basic list-level linearity -/

theorem smul_vadd' (t : α) (a b : Vec α) : smul t (vadd a b) = vadd (smul t a) (smul t b) := by
  simp only [smul, vadd, List.map_zipWith, List.zipWith_map, mul_add]

theorem smul_zeros' (t : α) (n : Nat) : smul t (zeros n : Vec α) = zeros n := by
  simp [smul, zeros]

theorem smul_smul_comm' (a b : α) (x : Vec α) : smul a (smul b x) = smul b (smul a x) := by
  simp only [smul, List.map_map]
  congr 1; funext y; simp only [Function.comp]; ring

theorem smul_smul' (a b : α) (x : Vec α) : smul a (smul b x) = smul (a * b) x := by
  simp only [smul, List.map_map]
  congr 1; funext y; simp only [Function.comp]; ring

theorem foldl_vadd_map_smul (t : α) : ∀ (xs : List (Vec α)) (acc : Vec α),
    (xs.map (smul t)).foldl vadd (smul t acc) = smul t (xs.foldl vadd acc)
  | [], acc => rfl
  | x :: xs, acc => by
    rw [List.map_cons, List.foldl_cons, List.foldl_cons, ← smul_vadd', foldl_vadd_map_smul t xs]

theorem vsum_map_smul (t : α) (n : Nat) (xs : List (Vec α)) :
    vsum n (xs.map (smul t)) = smul t (vsum n xs) := by
  rw [vsum, vsum, ← foldl_vadd_map_smul, smul_zeros']

theorem combine_map_smul (J : Mat α) (n : Nat) (w : Vec α) (t : α) :
    combine n (J.map (smul t)) w = smul t (combine n J w) := by
  rw [combine, combine, ← vsum_map_smul]
  congr 1
  rw [List.zipWith_map_right, List.map_zipWith]
  congr 1; funext a b; exact smul_smul_comm' a t b

theorem dot_smul_left (t : α) : ∀ (a b : Vec α), dot (smul t a) b = t * dot a b
  | [], b => by simp [smul, dot_nil_left]
  | a :: as, [] => by simp [dot_nil_right]
  | a :: as, b :: bs => by
    have := dot_smul_left t as bs
    simp only [smul, List.map_cons] at this ⊢
    rw [dot_cons_cons, dot_cons_cons, this]; ring

theorem dot_smul_right (t : α) (a b : Vec α) : dot a (smul t b) = t * dot a b := by
  rw [dot_comm', dot_smul_left, dot_comm']

theorem list_sum_map_mul (t : α) (l : List α) : (l.map (t * ·)).sum = t * l.sum := by
  induction l with
  | nil => simp
  | cons a l ih => simp [ih, mul_add]

theorem matVec_map_smul (G : Mat α) (c : α) (v : Vec α) :
    matVec (G.map (smul c)) v = smul c (matVec G v) := by
  simp only [matVec, smul, List.map_map]
  congr 1; funext r; simp only [Function.comp]; exact dot_smul_left c r v

theorem matVec_smul (G : Mat α) (c : α) (v : Vec α) :
    matVec G (smul c v) = smul c (matVec G v) := by
  simp only [matVec, smul, List.map_map]
  congr 1; funext r; simp only [Function.comp]; exact dot_smul_right c r v

theorem gram_map_smul (J : Mat α) (t : α) : gram (J.map (smul t)) = (gram J).map (smul (t * t)) := by
  unfold gram
  rw [List.map_map, List.map_map]
  apply List.map_congr_left
  intro r _
  show List.map (dot (smul t r)) (List.map (smul t) J) = List.map (t * t * ·) (List.map (dot r) J)
  rw [List.map_map, List.map_map]
  apply List.map_congr_left
  intro r' _
  show dot (smul t r) (smul t r') = t * t * dot r r'
  rw [dot_smul_left, dot_smul_right]; ring

theorem getD_map_smul (G : Mat α) (c : α) (j : Nat) :
    (G.map (smul c)).getD j [] = smul c (G.getD j []) := by
  simp only [List.getD_eq_getElem?_getD, List.getElem?_map]
  cases G[j]? <;> simp [smul]

/-! ### vmin / argminGap / Frank–Wolfe / PCGrad -/

theorem foldl_min_map (c : α) (hc : 0 < c) : ∀ (xs : List α) (acc : α),
    (xs.map (c * ·)).foldl (fun a b => if b < a then b else a) (c * acc) =
      c * xs.foldl (fun a b => if b < a then b else a) acc
  | [], acc => rfl
  | x :: xs, acc => by
    rw [List.map_cons, List.foldl_cons, List.foldl_cons]
    by_cases h : x < acc
    · rw [if_pos h, if_pos ((mul_lt_mul_iff_right₀ hc).mpr h)]; exact foldl_min_map c hc xs x
    · rw [if_neg h, if_neg (fun h' => h ((mul_lt_mul_iff_right₀ hc).mp h'))]; exact foldl_min_map c hc xs acc

theorem vmin_map_mul (c : α) (hc : 0 < c) (xs : List α) (d : α) :
    vmin (xs.map (c * ·)) (c * d) = c * vmin xs d := by
  unfold vmin
  have : (xs.map (c * ·)).headD (c * d) = c * xs.headD d := by cases xs <;> rfl
  rw [this, foldl_min_map c hc]

theorem vmin_map_mul_ne (c : α) (hc : 0 < c) (xs : List α) (d d' : α) (h : xs ≠ []) :
    vmin (xs.map (c * ·)) d' = c * vmin xs d := by
  unfold vmin
  have : (xs.map (c * ·)).headD d' = c * xs.headD d := by
    cases xs with
    | nil => exact absurd rfl h
    | cons => rfl
  rw [this, foldl_min_map c hc]

theorem fwStep_unfold (G : Mat α) (alpha : Vec α) : fwStep G alpha = 
  (let m := alpha.length
  let ga := matVec G alpha
  let t := (argminGap ga).1
  let gap := (argminGap ga).2
  let et : Vec α := oneHot m t
  let a := dot alpha (matVec G et)
  let b := dot alpha ga
  let c := dot et (matVec G et)
  let gamma : α := if c ≤ a then 1 else if b ≤ a then 0 else (b - a) / (b + c - (1 + 1) * a)
  let alpha' := vadd (smul (1 - gamma) alpha) (smul gamma et)
  (alpha', gamma, vmin [gap, absV (c - a), absV (b - a)] 1)) := by
  rfl


theorem argminGap_fst_map (c : α) (hc : 0 < c) (xs : List α) :
    (argminGap (xs.map (c * ·))).1 = (argminGap xs).1 := by
  unfold argminGap
  simp only
  have h0 : vmin (xs.map (c * ·)) 0 = c * vmin xs 0 := by
    have := vmin_map_mul c hc xs 0
    rwa [mul_zero] at this
  have hp : ((fun p : α × Nat => decide (p.1 = c * vmin xs 0)) ∘ Prod.map (c * ·) id) =
      fun p => decide (p.1 = vmin xs 0) := by
    funext p; simp [mul_right_inj' hc.ne']
  rw [h0, List.zipIdx_map, List.find?_map, Option.map_map, hp]
  rfl

theorem gamma_scale (c : α) (hc : 0 < c) (a b cc : α) :
    (if c * cc ≤ c * a then (1:α) else if c * b ≤ c * a then 0 else
      (c * b - c * a) / (c * b + c * cc - (1 + 1) * (c * a))) =
    (if cc ≤ a then (1:α) else if b ≤ a then 0 else (b - a) / (b + cc - (1 + 1) * a)) := by
  have e : (c * b - c * a) / (c * b + c * cc - (1 + 1) * (c * a)) = (b - a) / (b + cc - (1 + 1) * a) := by
    rw [show c * b - c * a = c * (b - a) by ring,
      show c * b + c * cc - (1 + 1) * (c * a) = c * (b + cc - (1 + 1) * a) by ring,
      mul_div_mul_left _ _ hc.ne']
  rw [e]
  simp only [mul_le_mul_iff_right₀ hc]

theorem fwStep_scale (G : Mat α) (a : Vec α) (c : α) (hc : 0 < c) :
    (fwStep (G.map (smul c)) a).1 = (fwStep G a).1 ∧ (fwStep (G.map (smul c)) a).2.1 = (fwStep G a).2.1 := by
  rw [fwStep_unfold, fwStep_unfold]
  simp only
  have hga : matVec (G.map (smul c)) a = (matVec G a).map (c * ·) := matVec_map_smul G c a
  rw [hga, argminGap_fst_map c hc]
  simp only [matVec_map_smul, dot_smul_right]
  have := gamma_scale c hc (dot a (matVec G (oneHot a.length (argminGap (matVec G a)).1)))
    (dot a (matVec G a)) 
    (dot (oneHot a.length (argminGap (matVec G a)).1) (matVec G (oneHot a.length (argminGap (matVec G a)).1)))
  rw [← smul, dot_smul_right, this]
  exact ⟨rfl, rfl⟩

theorem mgda_go_succ (G : Mat α) (epsilon : α) (k : Nat) (alpha : Vec α) (mg : α) :
    mgdaWeights.go G epsilon (k + 1) alpha mg =
      if (fwStep G alpha).2.1 < epsilon then
        ((fwStep G alpha).1, vmin [mg, (fwStep G alpha).2.2, absV ((fwStep G alpha).2.1 - epsilon)] 1)
      else mgdaWeights.go G epsilon k (fwStep G alpha).1
        (vmin [mg, (fwStep G alpha).2.2, absV ((fwStep G alpha).2.1 - epsilon)] 1) := by
  rfl

theorem mgda_go_scale (G G' : Mat α) (epsilon : α)
    (hfw : ∀ a, (fwStep G' a).1 = (fwStep G a).1 ∧ (fwStep G' a).2.1 = (fwStep G a).2.1) :
    ∀ (k : Nat) (alpha : Vec α) (mg mg' : α),
      (mgdaWeights.go G' epsilon k alpha mg').1 = (mgdaWeights.go G epsilon k alpha mg).1
  | 0, alpha, mg, mg' => rfl
  | k + 1, alpha, mg, mg' => by
    rw [mgda_go_succ, mgda_go_succ, (hfw alpha).1, (hfw alpha).2]
    split_ifs
    · rfl
    · exact mgda_go_scale G G' epsilon hfw k _ _ _

/-- one PCGrad projection step (as in `pcgradWeights`) -/
def pcStep (G : Mat α) (i : Nat) (st : Vec α × α) (j : Nat) : Vec α × α :=
  if j = i then st else
    let cw := st.1
    let ip := dot (G.getD j []) cw
    let mg := vmin [st.2, absV ip] 1
    if ip < 0 then
      (cw.zipIdx.map fun (x, k) => if k = j then x - ip / (G.getD j []).getD j 0 else x, mg)
    else (cw, mg)

theorem pcgradWeights_eq (G : Mat α) (perms : List (List Nat)) :
    pcgradWeights G perms =
      (vsum G.length (((List.range G.length).map fun i =>
          (perms.getD i []).foldl (pcStep G i) (oneHot G.length i, (1 : α))).map (·.1)),
        vmin (((List.range G.length).map fun i =>
          (perms.getD i []).foldl (pcStep G i) (oneHot G.length i, (1 : α))).map (·.2)) 1) := rfl

theorem pcStep_scale (G : Mat α) (c : α) (hc : 0 < c) (i j : Nat) (st st' : Vec α × α)
    (h : st'.1 = st.1) : (pcStep (G.map (smul c)) i st' j).1 = (pcStep G i st j).1 := by
  unfold pcStep
  by_cases hj : j = i
  · simp only [hj, if_true]; exact h
  · simp only [hj, if_false]
    rw [getD_map_smul, h, dot_smul_left, smul_getD]
    have : c * dot (G.getD j []) st.1 < 0 ↔ dot (G.getD j []) st.1 < 0 := by
      constructor
      · intro h1; by_contra h2; have h2 := not_lt.mp h2; exact absurd h1 (not_lt.mpr (mul_nonneg hc.le h2))
      · intro h1; exact mul_neg_of_pos_of_neg hc h1
    by_cases hip : dot (G.getD j []) st.1 < 0
    · rw [if_pos hip, if_pos (this.mpr hip), mul_div_mul_left _ _ hc.ne']
    · rw [if_neg hip, if_neg (fun h' => hip (this.mp h'))]

theorem pcFold_scale (G : Mat α) (c : α) (hc : 0 < c) (i : Nat) : ∀ (perm : List Nat)
    (st st' : Vec α × α), st'.1 = st.1 →
    (perm.foldl (pcStep (G.map (smul c)) i) st').1 = (perm.foldl (pcStep G i) st).1
  | [], st, st', h => h
  | j :: perm, st, st', h => by
    rw [List.foldl_cons, List.foldl_cons]
    exact pcFold_scale G c hc i perm _ _ (pcStep_scale G c hc i j st st' h)

theorem pcgrad_scale (G : Mat α) (c : α) (hc : 0 < c) (perms : List (List Nat)) :
    (pcgradWeights (G.map (smul c)) perms).1 = (pcgradWeights G perms).1 := by
  rw [pcgradWeights_eq, pcgradWeights_eq]
  simp only [List.length_map, List.map_map]
  congr 1
  apply List.map_congr_left
  intro i _
  exact pcFold_scale G c hc i _ _ _ rfl

/-! ### regNormGram / TrimmedMean / GradDrop -/

theorem regNormGram_scale (J : Mat α) (s normEps regEps t : α) (ht : 0 < t) (hs : normEps ≤ s)
    (hts : normEps ≤ t * s) :
    regNormGram (J.map (smul t)) (t * s) normEps regEps = regNormGram J s normEps regEps := by
  unfold regNormGram
  simp only [List.length_map, if_neg (not_lt.mpr hs), if_neg (not_lt.mpr hts)]
  congr 1
  rw [gram_map_smul, List.map_map]
  apply List.map_congr_left
  intro row _
  show List.map (· / (t * s * (t * s))) (List.map (t * t * ·) row) = _
  rw [List.map_map]
  apply List.map_congr_left
  intro x _
  show t * t * x / (t * s * (t * s)) = x / (s * s)
  rw [show t * s * (t * s) = t * t * (s * s) by ring, mul_div_mul_left _ _ (mul_pos ht ht).ne']

theorem sortAsc_map_mul (t : α) (ht : 0 < t) (xs : List α) :
    sortAsc (xs.map (t * ·)) = (sortAsc xs).map (t * ·) := by
  unfold sortAsc
  symm
  apply List.map_mergeSort
  intro a _ b _
  rw [decide_eq_decide]
  exact (mul_le_mul_iff_right₀ ht).symm

theorem col_map_smul [Inhabited α] (J : Mat α) (m n : Nat) (hJ : MatWF J m n) (t : α) (c : Nat)
    (hc : c < n) : col (J.map (smul t)) c = (col J c).map (t * ·) := by
  unfold col
  rw [List.map_map, List.map_map]
  apply List.map_congr_left
  intro r hr
  have hl : c < r.length := by rw [hJ.2 r hr]; exact hc
  simp [smul, List.getD_eq_getElem?_getD, List.getElem?_eq_getElem hl]

theorem trimmedMeanCol_map_mul [Inhabited α] (b : Nat) (t : α) (ht : 0 < t) (xs : List α) :
    trimmedMeanCol b (xs.map (t * ·)) = t * trimmedMeanCol b xs := by
  unfold trimmedMeanCol
  simp only [List.length_map]
  rw [sortAsc_map_mul t ht, ← List.map_drop, ← List.map_take, list_sum_map_mul, mul_div_assoc]

theorem trimmedMean_scale [Inhabited α] (b m n : Nat) (J : Mat α) (hJ : MatWF J m n) (t : α)
    (ht : 0 < t) : trimmedMean b n (J.map (smul t)) = smul t (trimmedMean b n J) := by
  unfold trimmedMean
  rw [smul, List.map_map]
  apply List.map_congr_left
  intro c hc
  simp only [Function.comp]
  rw [col_map_smul J m n hJ t c (List.mem_range.mp hc), trimmedMeanCol_map_mul b t ht]

theorem absV_mul (t : α) (ht : 0 < t) (x : α) : absV (t * x) = t * absV x := by
  unfold absV
  have : t * x < 0 ↔ x < 0 := by
    constructor
    · intro h1; by_contra h2; have h2 := not_lt.mp h2; exact absurd h1 (not_lt.mpr (mul_nonneg ht.le h2))
    · intro h1; exact mul_neg_of_pos_of_neg ht h1
  by_cases h : x < 0
  · rw [if_pos h, if_pos (this.mpr h)]; ring
  · rw [if_neg h, if_neg (fun h' => h (this.mp h'))]

theorem sum_absV_map_mul (t : α) (ht : 0 < t) (xs : List α) :
    ((xs.map (t * ·)).map absV).sum = t * (xs.map absV).sum := by
  rw [List.map_map, ← list_sum_map_mul, List.map_map]
  congr 1
  apply List.map_congr_left
  intro x _
  exact absV_mul t ht x

/-- the GradDrop value of one column -/
def graddropCol (column leak : Vec α) (u : α) : α :=
    let s := column.sum
    let a := (column.map absV).sum
    let pos : Bool := if a = 0 then false else decide (u < (1 + s / a) / (1 + 1))
    let neg : Bool := if a = 0 then false else decide ((1 + s / a) / (1 + 1) < u)
    (column.zipIdx.map fun (x, i) =>
      let mask : α := (if pos && decide (0 < x) then 1 else 0) + (if neg && decide (x < 0) then 1 else 0)
      let l := leak.getD i 0
      (l + (1 - l) * mask) * x).sum

theorem graddrop_eq [Inhabited α] (J : Mat α) (leak U : Vec α) (n : Nat) :
    graddrop J leak U n = (List.range n).map fun c => graddropCol (col J c) leak (U.getD c 0) := rfl

theorem graddropCol_map_mul (t : α) (ht : 0 < t) (column leak : Vec α) (u : α) :
    graddropCol (column.map (t * ·)) leak u = t * graddropCol column leak u := by
  unfold graddropCol
  simp only
  rw [sum_absV_map_mul t ht, list_sum_map_mul]
  have ha : t * (column.map absV).sum = 0 ↔ (column.map absV).sum = 0 := by
    rw [mul_eq_zero]; exact ⟨fun h => h.resolve_left ht.ne', Or.inr⟩
  have hd : t * column.sum / (t * (column.map absV).sum) = column.sum / (column.map absV).sum :=
    mul_div_mul_left _ _ ht.ne'
  rw [hd]
  simp only [ha]
  rw [← list_sum_map_mul, List.zipIdx_map, List.map_map, List.map_map]
  congr 1
  apply List.map_congr_left
  rintro ⟨x, i⟩ _
  simp only [Function.comp, Prod.map_fst, Prod.map_snd, id]
  have h1 : (0 < t * x) ↔ 0 < x := by
    constructor
    · intro h; by_contra h2; have h2 := not_lt.mp h2
      exact absurd h (not_lt.mpr (mul_nonpos_of_nonneg_of_nonpos ht.le h2))
    · exact mul_pos ht
  have h2 : t * x < 0 ↔ x < 0 := by
    constructor
    · intro h1; by_contra h2; have h2 := not_lt.mp h2; exact absurd h1 (not_lt.mpr (mul_nonneg ht.le h2))
    · intro h1; exact mul_neg_of_pos_of_neg ht h1
  simp only [h1, h2]
  ring

theorem graddrop_scale [Inhabited α] (m n : Nat) (J : Mat α) (hJ : MatWF J m n) (leak U : Vec α)
    (t : α) (ht : 0 < t) : graddrop (J.map (smul t)) leak U n = smul t (graddrop J leak U n) := by
  rw [graddrop_eq, graddrop_eq, smul, List.map_map]
  apply List.map_congr_left
  intro c hc
  simp only [Function.comp]
  rw [col_map_smul J m n hJ t c (List.mem_range.mp hc), graddropCol_map_mul t ht]

/-! ### ConFIG / Aligned-MTL -/

/-- `configVec` with the unit-row matrix abstracted -/
def configCore (U J : Mat α) (w : Vec α) (n : Nat) : Option (Vec α) :=
  match solve (gram U) w w.length with
  | none => none
  | some y =>
    if matVec (gram U) y = w then
      let best := combine n U y
      let bb := dot best best
      if bb = 0 then some (zeros n)
      else
        let len := (J.map fun row => dot row best).sum
        some (smul (len / bb) best)
    else none

theorem configVec_eq (J : Mat α) (d w : Vec α) (n : Nat) :
    configVec J d w n = configCore (List.zipWith (fun row di => row.map (· / di)) J d) J w n := rfl

theorem unitRows_scale (t : α) (ht : 0 < t) : ∀ (J : Mat α) (d : Vec α),
    List.zipWith (fun row di => row.map (· / di)) (J.map (smul t)) (d.map (t * ·)) =
      List.zipWith (fun row di => row.map (· / di)) J d := by
  intro J d
  rw [List.zipWith_map]
  congr 1
  funext row di
  rw [smul, List.map_map]
  apply List.map_congr_left
  intro x _
  exact mul_div_mul_left _ _ ht.ne'

theorem configCore_scale (U J : Mat α) (w : Vec α) (n : Nat) (t : α) :
    configCore U (J.map (smul t)) w n = (configCore U J w n).map (smul t) := by
  unfold configCore
  cases solve (gram U) w w.length with
  | none => rfl
  | some y =>
    simp only
    by_cases h1 : matVec (gram U) y = w
    · rw [if_pos h1, if_pos h1]
      by_cases h2 : dot (combine n U y) (combine n U y) = 0
      · rw [if_pos h2, if_pos h2, Option.map_some, smul_zeros']
      · rw [if_neg h2, if_neg h2, Option.map_some, smul_smul', List.map_map]
        have : (List.map ((fun row => dot row (combine n U y)) ∘ smul t) J).sum =
            t * (List.map (fun row => dot row (combine n U y)) J).sum := by
          rw [← list_sum_map_mul, List.map_map]
          congr 1
          apply List.map_congr_left
          intro r _
          exact dot_smul_left t r _
        rw [this, mul_div_assoc]
    · rw [if_neg h1, if_neg h1]; rfl

theorem configVec_scale (J : Mat α) (d w : Vec α) (n : Nat) (t : α) (ht : 0 < t) :
    configVec (J.map (smul t)) (d.map (t * ·)) w n = (configVec J d w n).map (smul t) := by
  rw [configVec_eq, configVec_eq, unitRows_scale t ht, configCore_scale]

theorem gram_length (J : Mat α) : (gram J).length = J.length := by simp [gram]

theorem alignedCert_scale (M : Mat α) (vecs : Mat α) (sigma : Vec α) (t : α) (ht : 0 < t) :
    alignedCert (M.map (smul (t * t))) vecs (sigma.map (t * ·)) = alignedCert M vecs sigma := by
  unfold alignedCert
  simp only [List.length_map]
  congr 1
  · congr 1
    congr 1
    rw [List.all_map]
    congr 1
    funext s
    simp only [Function.comp]
    rw [decide_eq_decide]
    exact ⟨fun h => by
      rcases lt_trichotomy 0 s with h1 | h1 | h1
      · exact h1
      · rw [← h1, mul_zero] at h; exact absurd h (lt_irrefl _)
      · exact absurd h (not_lt.mpr (mul_nonpos_of_nonneg_of_nonpos ht.le h1.le)), mul_pos ht⟩
  · congr 1
    funext a
    congr 1
    funext b
    rw [decide_eq_decide, getD_map_smul, smul_getD, List.zipWith_map_right]
    have : (List.zipWith (fun (v : Vec α) s => t * s * (t * s) * v.getD a 0 * v.getD b 0) vecs sigma) =
        (List.zipWith (fun (v : Vec α) s => s * s * v.getD a 0 * v.getD b 0) vecs sigma).map (t * t * ·) := by
      rw [List.map_zipWith]
      congr 1
      funext v s
      ring
    rw [this, list_sum_map_mul]
    exact mul_right_inj' (mul_pos ht ht).ne'

theorem alignedWeights_scale (J : Mat α) (vecs : Mat α)
    (sigma w : Vec α) (t : α) (ht : 0 < t) (hs : sigma ≠ []) :
    alignedWeights (J.map (smul t)) vecs (sigma.map (t * ·)) w = alignedWeights J vecs sigma w := by
  unfold alignedWeights
  simp only [gram_map_smul, alignedCert_scale _ vecs sigma t ht, List.length_map, List.isEmpty_map]
  rw [vmin_map_mul_ne t ht sigma 1 1 hs, List.zipWith_map_right]
  have : (fun (v : Vec α) s => smul (t * vmin sigma 1 / (t * s) * dot v w) v) =
      fun v s => smul (vmin sigma 1 / s * dot v w) v := by
    funext v s
    rw [mul_div_mul_left _ _ ht.ne']
  rw [this]

/-! ### IMTL-G -/

theorem solve_length (A : Mat α) (b : Vec α) (n : Nat) (x : Vec α) (h : solve A b n = some x) :
    x.length = n := by
  unfold solve at h
  simp only at h
  split at h
  · exact absurd h (by simp)
  · simp only [Option.some.injEq] at h
    rw [← h, List.length_map, List.length_range]

theorem imtlg_spec (J : Mat α) (d : Vec α) (guard : α) (w : Vec α)
    (h : imtlgWeights J d guard = some w) :
    ∃ v : Vec α, v.length = d.length ∧ matVec (gram J) v = d ∧
      w = if absV v.sum ≤ guard * (v.map absV).sum then zeros d.length else v.map (· / v.sum) := by
  unfold imtlgWeights at h
  simp only at h
  cases hsol : solve (gram J) d d.length with
  | none => rw [hsol] at h; exact absurd h (by simp)
  | some v =>
    rw [hsol] at h
    simp only at h
    refine ⟨v, solve_length _ _ _ _ hsol, ?_⟩
    by_cases h1 : matVec (gram J) v = d
    · rw [if_pos h1] at h
      refine ⟨h1, ?_⟩
      split_ifs at h ⊢ <;> exact (Option.some.inj h).symm
    · rw [if_neg h1] at h; exact absurd h (by simp)

theorem smul_injective' (t : α) (ht : t ≠ 0) (a b : Vec α) (h : smul t a = smul t b) : a = b := by
  have := congrArg (smul t⁻¹) h
  rwa [smul_smul', smul_smul', inv_mul_cancel₀ ht, smul, smul, 
    show (fun x : α => 1 * x) = id from funext one_mul, List.map_id, List.map_id] at this

theorem imtlg_scale (J : Mat α) (m : Nat) (d : Vec α)
    (hd : d.length = m) (guard t : α) (ht : 0 < t)
    (huniq : ∀ v v' : Vec α, v.length = m → v'.length = m → matVec (gram J) v = d →
        matVec (gram J) v' = d → v = v')
    (w w' : Vec α) (h : imtlgWeights J d guard = some w)
    (h' : imtlgWeights (J.map (smul t)) (d.map (t * ·)) guard = some w') : w' = w := by
  obtain ⟨v, hvl, hv, hw⟩ := imtlg_spec J d guard w h
  obtain ⟨v', hvl', hv', hw'⟩ := imtlg_spec _ _ guard w' h'
  rw [List.length_map] at hvl' hw'
  rw [gram_map_smul, matVec_map_smul, ← smul_smul'] at hv'
  have hv'' : matVec (gram J) (smul t v') = d := by
    rw [matVec_smul]
    exact smul_injective' t ht.ne' _ _ hv'
  have hvv : v = smul t v' :=
    huniq v (smul t v') (hvl.trans hd) ((smul_length t v').trans (hvl'.trans hd)) hv hv''
  have hsum : v.sum = t * v'.sum := by rw [hvv]; exact list_sum_map_mul t v'
  have habs : (v.map absV).sum = t * (v'.map absV).sum := by
    rw [hvv]; exact sum_absV_map_mul t ht v'
  rw [hw, hw', hsum, habs, absV_mul t ht]
  have hg : t * absV v'.sum ≤ guard * (t * (v'.map absV).sum) ↔
      absV v'.sum ≤ guard * (v'.map absV).sum := by
    rw [show guard * (t * (v'.map absV).sum) = t * (guard * (v'.map absV).sum) by ring]
    exact mul_le_mul_iff_right₀ ht
  simp only [hg]
  split_ifs
  · rfl
  · rw [hvv, smul, List.map_map]
    apply List.map_congr_left
    intro x _
    exact (mul_div_mul_left _ _ ht.ne').symm

end Tjd.Agg.Homog
