/- helper lemmas for TjdProps/C19.lean -/
import Mathlib.Algebra.Order.Field.Basic
import Mathlib.Tactic.Ring
import Mathlib.Tactic.FieldSimp
import TjdModel.Agg.Nash
namespace Tjd.Agg
open Tjd

/-- the filter counting the calls of a history -/
def isCall {α : Type} (o : NashOp α) : Bool := match o with | .call _ => true | .reset => false

section
variable {α : Type}

/-- state after the first `n` calls of the stream `f 0, f 1, …` started in `st` -/
def nashStateN (solve : Mat α → Vec α → Vec α) (k : Nat) (f : Nat → Mat α) (st : NashState α) :
    Nat → NashState α
  | 0 => st
  | n + 1 => (nashStep solve k (nashStateN solve k f st n) (f n)).1

theorem nashStep_step (solve : Mat α → Vec α → Vec α) (k : Nat) (st : NashState α) (J : Mat α) :
    (nashStep solve k st J).1.step = st.step + 1 := by
  unfold nashStep; split <;> rfl

/-- the (pre-rescaling) output of a call is the new `prvs` -/
theorem nashStep_out_eq_prvs (solve : Mat α → Vec α → Vec α) (k : Nat) (st : NashState α)
    (J : Mat α) : (nashStep solve k st J).2.1 = (nashStep solve k st J).1.prvs := by
  unfold nashStep; split <;> rfl

theorem nashStep_inv (solve : Mat α → Vec α → Vec α) (k : Nat) (st : NashState α) (J : Mat α) :
    (nashStep solve k st J).2.2 = decide (st.step % k = 0) := by
  unfold nashStep; split <;> simp [*]

theorem nashStep_prvs_of_ne (solve : Mat α → Vec α → Vec α) (k : Nat) (st : NashState α)
    (J : Mat α) (h : st.step % k ≠ 0) : (nashStep solve k st J).1.prvs = st.prvs := by
  unfold nashStep; rw [if_neg h]

theorem nashStep_prvs_of_eq (solve : Mat α → Vec α → Vec α) (k : Nat) (st : NashState α)
    (J : Mat α) (h : st.step % k = 0) : (nashStep solve k st J).1.prvs = solve J st.prvs := by
  unfold nashStep; rw [if_pos h]

theorem nashStateN_step (solve : Mat α → Vec α → Vec α) (k : Nat) (f : Nat → Mat α)
    (st : NashState α) (n : Nat) : (nashStateN solve k f st n).step = st.step + n := by
  induction n with
  | zero => rfl
  | succ n ih => simp only [nashStateN, nashStep_step, ih]; omega

theorem nashStateN_shift (solve : Mat α → Vec α → Vec α) (k : Nat) (f : Nat → Mat α)
    (st : NashState α) (n : Nat) :
    nashStateN solve k f st (n + 1) =
      nashStateN solve k (fun j => f (j + 1)) (nashStep solve k st (f 0)).1 n := by
  induction n with
  | zero => rfl
  | succ n ih =>
    show (nashStep solve k (nashStateN solve k f st (n + 1)) (f (n + 1))).1 = _
    rw [ih]; rfl

/-- the state only depends on the matrices actually consumed -/
theorem nashStateN_congr (solve : Mat α → Vec α → Vec α) (k : Nat) (f g : Nat → Mat α)
    (st : NashState α) (n : Nat) (h : ∀ j, j < n → f j = g j) :
    nashStateN solve k f st n = nashStateN solve k g st n := by
  induction n with
  | zero => rfl
  | succ n ih =>
    simp only [nashStateN]
    rw [ih (fun j hj => h j (by omega)), h n (by omega)]

/-- pre-rescaling output of call `i` of the stream -/
def nashOutN (solve : Mat α → Vec α → Vec α) (k : Nat) (f : Nat → Mat α) (st : NashState α)
    (i : Nat) : Vec α :=
  (nashStep solve k (nashStateN solve k f st i) (f i)).2.1

theorem nashOutN_eq_prvs (solve : Mat α → Vec α → Vec α) (k : Nat) (f : Nat → Mat α)
    (st : NashState α) (i : Nat) :
    nashOutN solve k f st i = (nashStateN solve k f st (i + 1)).prvs := by
  unfold nashOutN; rw [nashStep_out_eq_prvs]; rfl

/-- between multiples of `k` nothing changes -/
theorem nashStateN_prvs_between (solve : Mat α → Vec α → Vec α) (k : Nat) (f : Nat → Mat α)
    (st : NashState α) (hst : st.step = 0) (q r : Nat) (hr : r < k) :
    (nashStateN solve k f st (q * k + r + 1)).prvs = (nashStateN solve k f st (q * k + 1)).prvs := by
  induction r with
  | zero => rfl
  | succ r ih =>
    rw [← ih (by omega)]
    show (nashStep solve k (nashStateN solve k f st (q * k + (r + 1))) _).1.prvs = _
    rw [nashStep_prvs_of_ne]
    · rfl
    · rw [nashStateN_step, hst, Nat.zero_add, Nat.mul_comm, Nat.mul_add_mod,
        Nat.mod_eq_of_lt hr]
      omega

theorem nashOutN_reuse (solve : Mat α → Vec α → Vec α) (k : Nat) (hk : 0 < k) (f : Nat → Mat α)
    (st : NashState α) (hst : st.step = 0) (i : Nat) :
    nashOutN solve k f st i = nashOutN solve k f st (i / k * k) := by
  rw [nashOutN_eq_prvs, nashOutN_eq_prvs]
  have h := nashStateN_prvs_between solve k f st hst (i / k) (i % k) (Nat.mod_lt _ hk)
  have e : i / k * k + i % k = i := by rw [Nat.mul_comm]; exact Nat.div_add_mod i k
  rw [e] at h
  exact h

/-- the weights produced at the recomputation call `q*k` -/
theorem nashOutN_mul (solve : Mat α → Vec α → Vec α) (k : Nat) (f : Nat → Mat α)
    (st : NashState α) (hst : st.step = 0) (q : Nat) :
    nashOutN solve k f st (q * k) = solve (f (q * k)) (nashStateN solve k f st (q * k)).prvs := by
  rw [nashOutN_eq_prvs]
  show (nashStep solve k (nashStateN solve k f st (q * k)) _).1.prvs = _
  rw [nashStep_prvs_of_eq]
  rw [nashStateN_step, hst, Nat.zero_add, Nat.mul_mod_left]

/-- sub-sampling: the `prvs` entering the recomputation `q*k` of the `k`-instance is the `prvs`
    entering call `q` of the `1`-instance fed the sub-sampled stream -/
theorem nashStateN_subsample (solve : Mat α → Vec α → Vec α) (k : Nat) (hk : 0 < k)
    (f : Nat → Mat α) (st : NashState α) (hst : st.step = 0) (q : Nat) :
    (nashStateN solve k f st (q * k)).prvs =
      (nashStateN solve 1 (fun j => f (j * k)) st q).prvs := by
  induction q with
  | zero => simp only [Nat.zero_mul]; rfl
  | succ q ih =>
    have e : (q + 1) * k = q * k + (k - 1) + 1 := by rw [Nat.add_mul]; omega
    rw [e, nashStateN_prvs_between solve k f st hst q (k - 1) (by omega)]
    rw [← nashOutN_eq_prvs, nashOutN_mul solve k f st hst q, ih]
    show _ = (nashStep solve 1 (nashStateN solve 1 (fun j => f (j * k)) st q) _).1.prvs
    rw [nashStep_prvs_of_eq _ _ _ _ (Nat.mod_one _)]

theorem nashOutN_subsample (solve : Mat α → Vec α → Vec α) (k : Nat) (hk : 0 < k)
    (f : Nat → Mat α) (st : NashState α) (hst : st.step = 0) (q : Nat) :
    nashOutN solve k f st (q * k) = nashOutN solve 1 (fun j => f (j * k)) st q := by
  rw [nashOutN_mul solve k f st hst q, nashStateN_subsample solve k hk f st hst q]
  have := nashOutN_mul solve 1 (fun j => f (j * k)) st hst q
  simp only [Nat.mul_one] at this
  rw [this]

theorem nashOutN_congr (solve : Mat α → Vec α → Vec α) (k : Nat) (f g : Nat → Mat α)
    (st : NashState α) (i : Nat) (h : ∀ j, j ≤ i → f j = g j) :
    nashOutN solve k f st i = nashOutN solve k g st i := by
  unfold nashOutN
  rw [nashStateN_congr solve k f g st i (fun j hj => h j (by omega)), h i (Nat.le_refl _)]

end

section
variable {α : Type} [One α] [Zero α] [Mul α] [Div α] [LT α] [DecidableLT α]

theorem nashRun_reset (solve : Mat α → Vec α → Vec α) (norm : Mat α → Vec α → α) (m k : Nat)
    (maxNorm : α) (st : NashState α) (ops : List (NashOp α)) :
    nashRun solve norm m k maxNorm st (.reset :: ops) =
      nashRun solve norm m k maxNorm (nashFresh m) ops := by
  rw [nashRun]

theorem nashRun_call (solve : Mat α → Vec α → Vec α) (norm : Mat α → Vec α → α) (m k : Nat)
    (maxNorm : α) (st : NashState α) (J : Mat α) (ops : List (NashOp α)) :
    nashRun solve norm m k maxNorm st (.call J :: ops) =
      ((nashStep solve k st J).2.1, nashRescale norm maxNorm J (nashStep solve k st J).2.1,
        (nashStep solve k st J).2.2) ::
        nashRun solve norm m k maxNorm (nashStep solve k st J).1 ops := by
  rw [nashRun]

theorem nashRun_length (solve : Mat α → Vec α → Vec α) (norm : Mat α → Vec α → α) (m k : Nat)
    (maxNorm : α) (st : NashState α) (ops : List (NashOp α)) :
    (nashRun solve norm m k maxNorm st ops).length = (ops.filter isCall).length := by
  induction ops generalizing st with
  | nil => simp [nashRun]
  | cons o ops ih =>
    cases o with
    | call J => rw [nashRun_call]; simp [List.filter_cons, isCall, ih]
    | reset => rw [nashRun_reset]; simp [isCall, ih]

/-- after the calls of a history (up to the next reset) the rest is that of a fresh instance -/
theorem nashRun_append_reset_drop (solve : Mat α → Vec α → Vec α) (norm : Mat α → Vec α → α)
    (m k : Nat) (maxNorm : α) (st : NashState α) (h cont : List (NashOp α)) :
    (nashRun solve norm m k maxNorm st (h ++ .reset :: cont)).drop (h.filter isCall).length =
      nashRun solve norm m k maxNorm (nashFresh m) cont := by
  induction h generalizing st with
  | nil => simp [nashRun_reset]
  | cons o h ih =>
    cases o with
    | call J => rw [List.cons_append, nashRun_call]; simp [List.filter_cons, isCall, ih]
    | reset => rw [List.cons_append, nashRun_reset]; simp [isCall, ih]

/-- description of the `i`-th output on a history of calls only -/
theorem nashRun_calls_getElem? (solve : Mat α → Vec α → Vec α) (norm : Mat α → Vec α → α)
    (m k : Nat) (maxNorm : α) (Js : List (Mat α)) (st : NashState α) (i : Nat)
    (hi : i < Js.length) :
    (nashRun solve norm m k maxNorm st (Js.map NashOp.call))[i]? =
      some (nashOutN solve k (fun j => Js.getD j []) st i,
        nashRescale norm maxNorm (Js.getD i []) (nashOutN solve k (fun j => Js.getD j []) st i),
        decide ((st.step + i) % k = 0)) := by
  induction Js generalizing st i with
  | nil => simp at hi
  | cons J Js ih =>
    rw [List.map_cons, nashRun_call]
    cases i with
    | zero =>
      simp only [List.getElem?_cons_zero, nashOutN, nashStateN, List.getD_cons_zero, nashStep_inv,
        Nat.add_zero]
    | succ i =>
      rw [List.getElem?_cons_succ, ih _ i (by simpa using hi)]
      simp only [nashOutN, nashStateN_shift, List.getD_cons_succ, List.getD_cons_zero,
        nashStep_step]
      rw [show st.step + 1 + i = st.step + (i + 1) by omega]

theorem nashRun_calls_getD (solve : Mat α → Vec α → Vec α) (norm : Mat α → Vec α → α)
    (m k : Nat) (maxNorm : α) (Js : List (Mat α)) (st : NashState α) (i : Nat)
    (hi : i < Js.length) (d : Vec α × Vec α × Bool) :
    (nashRun solve norm m k maxNorm st (Js.map NashOp.call)).getD i d =
      (nashOutN solve k (fun j => Js.getD j []) st i,
        nashRescale norm maxNorm (Js.getD i []) (nashOutN solve k (fun j => Js.getD j []) st i),
        decide ((st.step + i) % k = 0)) := by
  rw [List.getD_eq_getElem?_getD, nashRun_calls_getElem? solve norm m k maxNorm Js st i hi]
  rfl

end

end Tjd.Agg
