/- helper lemmas for TjdProps/C19.lean -/
import Mathlib.Algebra.Order.Field.Basic
import TjdModel.Agg.Nash
namespace Tjd.Agg

end Tjd.Agg
