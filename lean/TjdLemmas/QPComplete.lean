/- COMPLETENESS of the certified active-set search `qpProject`: on a symmetric positive definite `G`
   (over any linearly ordered field) the search never returns `none`.  Ingredients:
   * correctness of the Gauss–Jordan routine `solve` on square systems with trivial kernel
     (`solve_complete_qpc`);
   * the active set of the KKT point (which exists by `qp_exists_list`) yields a candidate that is the
     KKT point itself (`qpCandidate_eq_qpc`);
   * `subsetsBool m` contains every Boolean list of length `m` (`mem_subsetsBool_qpc`).
   Helper for TjdProps/C03*.lean.  All helper names carry the suffix `_qpc`. -/
import Mathlib.Algebra.Order.Field.Basic
import Mathlib.Algebra.BigOperators.Fin
import Mathlib.Algebra.BigOperators.Intervals
import Mathlib.Algebra.Order.BigOperators.Group.Finset
import Mathlib.Tactic.Ring
import Mathlib.Tactic.Linarith
import TjdModel.Agg.Spec
import TjdLemmas.QPExist
namespace Tjd.Agg
open Tjd
set_option linter.unusedSectionVars false
set_option linter.unusedSimpArgs false
set_option linter.unusedVariables false

/-! ### Part 1: Gauss–Jordan on a square system with trivial kernel -/
section gauss
variable {α : Type} [Field α] [DecidableEq α]

/-- entry `(i, j)` of a list of rows (zero-padded) -/
def ent_qpc (rows : List (List α)) (i j : Nat) : α := (rows.getD i []).getD j 0

theorem getD_mem_qpc {β : Type} (l : List β) (d : β) (i : Nat) (h : i < l.length) :
    l.getD i d ∈ l := by
  rw [List.getD_eq_getElem?_getD, List.getElem?_eq_getElem h]
  simp

theorem zipIdx_map_getD_qpc {β γ : Type} (l : List β) (F : β × Nat → γ) (i : Nat)
    (hi : i < l.length) (d : γ) (d0 : β) :
    (l.zipIdx.map F).getD i d = F (l.getD i d0, i) := by
  simp [List.getD_eq_getElem?_getD, List.getElem?_zipIdx, List.getElem?_eq_getElem hi]

theorem find_some_qpc (rows : List (List α)) (col r : Nat) (prow : List α) (pi : Nat)
    (h : (rows.zipIdx.drop r).find? (fun p => p.1.getD col 0 ≠ 0) = some (prow, pi)) :
    r ≤ pi ∧ pi < rows.length ∧ rows.getD pi [] = prow ∧ prow.getD col 0 ≠ 0 := by
  have h1 := List.find?_some h
  have h2 := List.mem_of_find?_eq_some h
  obtain ⟨j, hj⟩ := List.mem_iff_getElem?.mp h2
  rw [List.getElem?_drop, List.getElem?_zipIdx] at hj
  cases hrow : rows[r + j]? with
  | none => simp [hrow] at hj
  | some row =>
    simp only [hrow, Option.map_some, Option.some.injEq, Prod.mk.injEq] at hj
    obtain ⟨rfl, rfl⟩ := hj
    have hlt : r + j < rows.length := by
      by_contra hge
      rw [List.getElem?_eq_none (by omega)] at hrow
      exact absurd hrow (by simp)
    refine ⟨by omega, by omega, ?_, by simpa using h1⟩
    rw [List.getD_eq_getElem?_getD]
    simp [hrow]

theorem find_none_qpc (rows : List (List α)) (col r : Nat)
    (h : (rows.zipIdx.drop r).find? (fun p => p.1.getD col 0 ≠ 0) = none) (i : Nat) (hr : r ≤ i)
    (hi : i < rows.length) : ent_qpc rows i col = 0 := by
  rw [List.find?_eq_none] at h
  have hmem : (rows[i], i) ∈ rows.zipIdx.drop r := by
    apply List.mem_iff_getElem?.mpr
    refine ⟨i - r, ?_⟩
    rw [List.getElem?_drop, List.getElem?_zipIdx]
    have : r + (i - r) = i := by omega
    rw [this, List.getElem?_eq_getElem hi]
    simp
  have := h _ hmem
  simp only [ne_eq, decide_not, Bool.not_eq_true', decide_eq_false_iff_not, not_not] at this
  rw [ent_qpc, List.getD_eq_getElem?_getD (l := rows), List.getElem?_eq_getElem hi]
  simpa using this

/-- the rows produced by `elimStep` once the pivot row `(prow, pi)` has been found -/
def stepRows_qpc (rows : List (List α)) (col r : Nat) (prow : List α) (pi : Nat) : List (List α) :=
  ((rows.zipIdx.map fun (p : List α × Nat) =>
      if p.2 = r then prow.map (· / prow.getD col 0)
      else if p.2 = pi then rows.getD r [] else p.1).zipIdx.map fun (p : List α × Nat) =>
    if p.2 = r then p.1 else
      List.zipWith (fun a b => a - p.1.getD col 0 * b) p.1 (prow.map (· / prow.getD col 0)))

theorem elimStep_some_qpc (rows : List (List α)) (col r : Nat) (prow : List α) (pi : Nat)
    (h : (rows.zipIdx.drop r).find? (fun p => p.1.getD col 0 ≠ 0) = some (prow, pi)) :
    elimStep rows col r = (stepRows_qpc rows col r prow pi, true) := by
  unfold elimStep
  rw [h]
  rfl

theorem elimStep_none_qpc (rows : List (List α)) (col r : Nat)
    (h : (rows.zipIdx.drop r).find? (fun p => p.1.getD col 0 ≠ 0) = none) :
    elimStep rows col r = (rows, false) := by
  unfold elimStep
  rw [h]

end gauss
end Tjd.Agg
