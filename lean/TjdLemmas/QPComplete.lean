/- COMPLETENESS of the certified active-set search `qpProject`: on a symmetric positive definite `G`
   (over any linearly ordered field) the search never returns `none`.  Ingredients:
   * correctness of the Gauss–Jordan routine `solve` on square systems with trivial kernel
     (`solve_complete_qpc`);
   * the active set of the KKT point (which exists by `qp_exists_list`) yields a candidate that is the
     KKT point itself (`qpCandidate_eq_qpc`);
   * `subsetsBool m` contains every Boolean list of length `m` (`mem_subsetsBool_qpc`).
   Helper for TjdProps/C03*.lean.  All helper names carry the suffix `_qpc`. -/
import Mathlib.Algebra.Order.Field.Basic
import Mathlib.Algebra.BigOperators.Fin
import Mathlib.Algebra.BigOperators.Intervals
import Mathlib.Algebra.Order.BigOperators.Group.Finset
import Mathlib.Tactic.Ring
import Mathlib.Tactic.Linarith
import TjdModel.Agg.Spec
import TjdLemmas.QPExist
namespace Tjd.Agg
open Tjd
set_option linter.unusedSectionVars false
set_option linter.unusedSimpArgs false
set_option linter.unusedVariables false

/-! ### Part 1: Gauss–Jordan on a square system with trivial kernel -/
section gauss
variable {α : Type} [Field α] [DecidableEq α]

/-- entry `(i, j)` of a list of rows (zero-padded) -/
def ent_qpc (rows : List (List α)) (i j : Nat) : α := (rows.getD i []).getD j 0

theorem getD_mem_qpc {β : Type} (l : List β) (d : β) (i : Nat) (h : i < l.length) :
    l.getD i d ∈ l := by
  rw [List.getD_eq_getElem?_getD, List.getElem?_eq_getElem h]
  simp

theorem getD_eq_getElem_qpc {β : Type} (l : List β) (d : β) (i : Nat) (h : i < l.length) :
    l.getD i d = l[i] := by
  rw [List.getD_eq_getElem?_getD, List.getElem?_eq_getElem h, Option.getD_some]

theorem zipIdx_map_getD_qpc {β γ : Type} (l : List β) (F : β × Nat → γ) (i : Nat)
    (hi : i < l.length) (d : γ) (d0 : β) :
    (l.zipIdx.map F).getD i d = F (l.getD i d0, i) := by
  simp [List.getD_eq_getElem?_getD, List.getElem?_zipIdx, List.getElem?_eq_getElem hi]

theorem find_some_qpc (rows : List (List α)) (col r : Nat) (prow : List α) (pi : Nat)
    (h : (rows.zipIdx.drop r).find? (fun p => p.1.getD col 0 ≠ 0) = some (prow, pi)) :
    r ≤ pi ∧ pi < rows.length ∧ rows.getD pi [] = prow ∧ prow.getD col 0 ≠ 0 := by
  have h1 := List.find?_some h
  have h2 := List.mem_of_find?_eq_some h
  obtain ⟨j, hj⟩ := List.mem_iff_getElem?.mp h2
  rw [List.getElem?_drop, List.getElem?_zipIdx] at hj
  cases hrow : rows[r + j]? with
  | none => simp [hrow] at hj
  | some row =>
    simp only [hrow, Option.map_some, Option.some.injEq, Prod.mk.injEq] at hj
    obtain ⟨rfl, rfl⟩ := hj
    have hlt : r + j < rows.length := by
      by_contra hge
      rw [List.getElem?_eq_none (by omega)] at hrow
      exact absurd hrow (by simp)
    refine ⟨by omega, by omega, ?_, by simpa using h1⟩
    rw [List.getD_eq_getElem?_getD]
    simp [hrow]

theorem find_none_qpc (rows : List (List α)) (col r : Nat)
    (h : (rows.zipIdx.drop r).find? (fun p => p.1.getD col 0 ≠ 0) = none) (i : Nat) (hr : r ≤ i)
    (hi : i < rows.length) : ent_qpc rows i col = 0 := by
  rw [List.find?_eq_none] at h
  have hmem : (rows[i], i) ∈ rows.zipIdx.drop r := by
    apply List.mem_iff_getElem?.mpr
    refine ⟨i - r, ?_⟩
    rw [List.getElem?_drop, List.getElem?_zipIdx]
    have : r + (i - r) = i := by omega
    rw [this, List.getElem?_eq_getElem hi]
    simp
  have := h _ hmem
  simp only [ne_eq, decide_not, Bool.not_eq_true', decide_eq_false_iff_not, not_not] at this
  rw [ent_qpc, List.getD_eq_getElem?_getD (l := rows), List.getElem?_eq_getElem hi]
  simpa using this

/-- the rows produced by `elimStep` once the pivot row `(prow, pi)` has been found -/
def stepRows_qpc (rows : List (List α)) (col r : Nat) (prow : List α) (pi : Nat) : List (List α) :=
  ((rows.zipIdx.map fun (p : List α × Nat) =>
      if p.2 = r then prow.map (· / prow.getD col 0)
      else if p.2 = pi then rows.getD r [] else p.1).zipIdx.map fun (p : List α × Nat) =>
    if p.2 = r then p.1 else
      List.zipWith (fun a b => a - p.1.getD col 0 * b) p.1 (prow.map (· / prow.getD col 0)))

theorem elimStep_some_qpc (rows : List (List α)) (col r : Nat) (prow : List α) (pi : Nat)
    (h : (rows.zipIdx.drop r).find? (fun p => p.1.getD col 0 ≠ 0) = some (prow, pi)) :
    elimStep rows col r = (stepRows_qpc rows col r prow pi, true) := by
  unfold elimStep
  rw [h]
  rfl

theorem elimStep_none_qpc (rows : List (List α)) (col r : Nat)
    (h : (rows.zipIdx.drop r).find? (fun p => p.1.getD col 0 ≠ 0) = none) :
    elimStep rows col r = (rows, false) := by
  unfold elimStep
  rw [h]

theorem stepRows_length_qpc (rows : List (List α)) (col r : Nat) (prow : List α) (pi : Nat) :
    (stepRows_qpc rows col r prow pi).length = rows.length := by
  simp [stepRows_qpc]

/-- row `i` of the swapped matrix -/
theorem swapRows_getD_qpc (rows : List (List α)) (r pi : Nat) (prow' : List α) (i : Nat)
    (hi : i < rows.length) :
    (rows.zipIdx.map fun (p : List α × Nat) =>
      if p.2 = r then prow' else if p.2 = pi then rows.getD r [] else p.1).getD i [] =
      if i = r then prow' else if i = pi then rows.getD r [] else rows.getD i [] := by
  rw [zipIdx_map_getD_qpc _ _ i hi [] []]

theorem stepRows_getD_qpc (rows : List (List α)) (col r : Nat) (prow : List α) (pi : Nat) (i : Nat)
    (hi : i < rows.length) :
    (stepRows_qpc rows col r prow pi).getD i [] =
      if i = r then prow.map (· / prow.getD col 0)
      else List.zipWith
        (fun a b => a - (if i = pi then rows.getD r [] else rows.getD i []).getD col 0 * b)
        (if i = pi then rows.getD r [] else rows.getD i []) (prow.map (· / prow.getD col 0)) := by
  unfold stepRows_qpc
  rw [zipIdx_map_getD_qpc _ _ i (by simpa using hi) [] [], swapRows_getD_qpc rows r pi _ i hi]
  by_cases h : i = r
  · simp [h]
  · simp only [h, if_false]

theorem map_div_getD_qpc (l : List α) (c : α) (j : Nat) :
    (l.map (· / c)).getD j 0 = l.getD j 0 / c := by
  simp only [List.getD_eq_getElem?_getD, List.getElem?_map]
  cases l[j]? <;> simp

theorem zipWith_getD_qpc (f : α → α → α) (a b : List α) (j : Nat) (ha : j < a.length)
    (hb : j < b.length) : (List.zipWith f a b).getD j 0 = f (a.getD j 0) (b.getD j 0) := by
  simp [List.getD_eq_getElem?_getD, List.getElem?_zipWith, List.getElem?_eq_getElem ha,
    List.getElem?_eq_getElem hb]

theorem stepRows_ent_qpc (rows : List (List α)) (n col r pi : Nat)
    (hlen : ∀ row ∈ rows, row.length = n + 1) (hr : r ≤ pi) (hpi : pi < rows.length) (i j : Nat)
    (hi : i < rows.length) (hj : j < n + 1) :
    ent_qpc (stepRows_qpc rows col r (rows.getD pi []) pi) i j =
      if i = r then ent_qpc rows pi j / ent_qpc rows pi col
      else (if i = pi then ent_qpc rows r j else ent_qpc rows i j) -
        (if i = pi then ent_qpc rows r col else ent_qpc rows i col) *
          (ent_qpc rows pi j / ent_qpc rows pi col) := by
  have hl : ∀ k, k < rows.length → (rows.getD k []).length = n + 1 :=
    fun k hk => hlen _ (getD_mem_qpc rows [] k hk)
  rw [ent_qpc, stepRows_getD_qpc rows col r _ pi i hi]
  by_cases h : i = r
  · simp only [h, if_true]
    rw [map_div_getD_qpc]
    rfl
  · simp only [h, if_false]
    rw [zipWith_getD_qpc _ _ _ j
      (by by_cases h2 : i = pi <;> simp only [h2, if_true, if_false] <;> rw [hl _ (by omega)] <;> exact hj)
      (by rw [List.length_map, hl _ hpi]; exact hj), map_div_getD_qpc]
    by_cases h2 : i = pi <;> simp only [h2, if_true, if_false] <;> rfl

theorem stepRows_rowlen_qpc (rows : List (List α)) (n col r pi : Nat)
    (hlen : ∀ row ∈ rows, row.length = n + 1) (hr : r ≤ pi) (hpi : pi < rows.length) :
    ∀ row ∈ stepRows_qpc rows col r (rows.getD pi []) pi, row.length = n + 1 := by
  have hl : ∀ k, k < rows.length → (rows.getD k []).length = n + 1 :=
    fun k hk => hlen _ (getD_mem_qpc rows [] k hk)
  intro row hrow
  obtain ⟨i, hi, rfl⟩ := List.mem_iff_getElem.mp hrow
  have hi' : i < rows.length := by rwa [stepRows_length_qpc] at hi
  have e : (stepRows_qpc rows col r (rows.getD pi []) pi)[i] =
      (stepRows_qpc rows col r (rows.getD pi []) pi).getD i [] := by
    generalize stepRows_qpc rows col r (rows.getD pi []) pi = L at hi
    rw [List.getD_eq_getElem?_getD, List.getElem?_eq_getElem hi, Option.getD_some]
  rw [e, stepRows_getD_qpc rows col r _ pi i hi']
  by_cases h : i = r
  · simp only [h, if_true, List.length_map]; exact hl _ hpi
  · simp only [h, if_false, List.length_zipWith, List.length_map, hl _ hpi]
    by_cases h2 : i = pi <;> simp only [h2, if_true, if_false] <;> rw [hl _ (by omega)] <;> simp

/-- `z` (with `n + 1` relevant entries) is annihilated by every row -/
def KerRows_qpc (n : Nat) (rows : List (List α)) (z : Nat → α) : Prop :=
  ∀ i, i < rows.length → ∑ j ∈ Finset.range (n + 1), ent_qpc rows i j * z j = 0

/-- the first `r` columns are the first `r` columns of the identity -/
def IdBlock_qpc (r : Nat) (rows : List (List α)) : Prop :=
  ∀ i, i < rows.length → ∀ j, j < r → ent_qpc rows i j = if i = j then 1 else 0

theorem sum_elim_qpc (s : Finset Nat) (a p z : Nat → α) (c pv : α) :
    ∑ j ∈ s, (a j - c * (p j / pv)) * z j =
      ∑ j ∈ s, a j * z j - c * ((∑ j ∈ s, p j * z j) / pv) := by
  rw [div_eq_mul_inv, Finset.sum_mul, Finset.mul_sum, ← Finset.sum_sub_distrib]
  apply Finset.sum_congr rfl
  intro j _
  ring

theorem sum_norm_qpc (s : Finset Nat) (p z : Nat → α) (pv : α) :
    ∑ j ∈ s, (p j / pv) * z j = (∑ j ∈ s, p j * z j) / pv := by
  rw [div_eq_mul_inv, Finset.sum_mul]
  apply Finset.sum_congr rfl
  intro j _
  ring

/-- the elimination step only performs invertible row operations: the kernel does not grow -/
theorem stepRows_ker_qpc (rows : List (List α)) (n col r pi : Nat)
    (hlen : ∀ row ∈ rows, row.length = n + 1) (hr : r ≤ pi) (hpi : pi < rows.length)
    (hpv : ent_qpc rows pi col ≠ 0) (z : Nat → α)
    (hz : KerRows_qpc n (stepRows_qpc rows col r (rows.getD pi []) pi) z) : KerRows_qpc n rows z := by
  have key : ∀ i, i < rows.length →
      ∑ j ∈ Finset.range (n + 1),
        (if i = r then ent_qpc rows pi j / ent_qpc rows pi col
        else (if i = pi then ent_qpc rows r j else ent_qpc rows i j) -
          (if i = pi then ent_qpc rows r col else ent_qpc rows i col) *
            (ent_qpc rows pi j / ent_qpc rows pi col)) * z j = 0 := by
    intro i hi
    rw [← hz i (by rwa [stepRows_length_qpc])]
    apply Finset.sum_congr rfl
    intro j hj
    rw [stepRows_ent_qpc rows n col r pi hlen hr hpi i j hi (Finset.mem_range.mp hj)]
  have hSpi : ∑ j ∈ Finset.range (n + 1), ent_qpc rows pi j * z j = 0 := by
    have := key r (by omega)
    simp only [if_true] at this
    rw [sum_norm_qpc] at this
    rcases div_eq_zero_iff.mp this with h | h
    · exact h
    · exact absurd h hpv
  have key2 : ∀ i, i < rows.length → i ≠ r →
      ∑ j ∈ Finset.range (n + 1), (if i = pi then ent_qpc rows r j else ent_qpc rows i j) * z j = 0 := by
    intro i hi hne
    have := key i hi
    simp only [hne, if_false] at this
    rw [sum_elim_qpc, hSpi] at this
    simpa using this
  intro i hi
  by_cases h1 : i = pi
  · rw [h1]; exact hSpi
  · by_cases h2 : i = r
    · have := key2 pi hpi (by omega)
      simp only [if_true] at this
      rw [h2]; exact this
    · have := key2 i hi h2
      simpa only [h1, if_false] using this

theorem stepRows_idBlock_qpc (rows : List (List α)) (n r pi : Nat)
    (hlen : ∀ row ∈ rows, row.length = n + 1) (hr : r ≤ pi) (hpi : pi < rows.length) (hrn : r < n + 1)
    (hpv : ent_qpc rows pi r ≠ 0) (hid : IdBlock_qpc r rows) :
    IdBlock_qpc (r + 1) (stepRows_qpc rows r r (rows.getD pi []) pi) := by
  intro i hi j hj
  rw [stepRows_length_qpc] at hi
  rw [stepRows_ent_qpc rows n r r pi hlen hr hpi i j hi (by omega)]
  by_cases hjr : j = r
  · subst hjr
    by_cases h : i = j
    · simp [h, div_self hpv]
    · simp [h, div_self hpv]
  · have hj' : j < r := by omega
    have hpij : ent_qpc rows pi j = 0 := by
      rw [hid pi hpi j hj']; simp; omega
    rw [hpij]
    by_cases h : i = r
    · have : ¬ i = j := by omega
      simp [h, this]
      omega
    · simp only [h, if_false, zero_div, mul_zero, sub_zero]
      by_cases h2 : i = pi
      · simp only [h2, if_true]
        rw [hid r (by omega) j hj']
        have : ¬ pi = j := by omega
        have h3 : ¬ r = j := by omega
        simp [this, h3]
      · simp only [h2, if_false]
        exact hid i hi j hj'

/-- if column `r` has no pivot below the identity block, there is a kernel vector with `z r = 1`
    supported on the first `r + 1` coordinates -/
theorem nopivot_ker_qpc (rows : List (List α)) (n r : Nat) (hrn : r < n)
    (hid : IdBlock_qpc r rows)
    (hz0 : ∀ i, r ≤ i → i < rows.length → ent_qpc rows i r = 0) :
    ∃ z : Nat → α, z r = 1 ∧ z n = 0 ∧ KerRows_qpc n rows z := by
  refine ⟨fun j => if j < r then -(ent_qpc rows j r) else if j = r then 1 else 0, ?_, ?_, ?_⟩
  · simp
  · have h1 : ¬ n < r := by omega
    have h2 : ¬ n = r := by omega
    simp [h1, h2]
  · intro i hi
    by_cases hir : i < r
    · have hterm : ∀ j ∈ Finset.range (n + 1),
          ent_qpc rows i j * (if j < r then -(ent_qpc rows j r) else if j = r then 1 else 0) =
            (if j = i then -(ent_qpc rows i r) else 0) + (if j = r then ent_qpc rows i r else 0) := by
        intro j _
        by_cases hj : j < r
        · have hne : ¬ j = r := by omega
          rw [hid i hi j hj]
          by_cases hij : i = j
          · subst hij; simp [hj, hne]
          · have : ¬ j = i := fun h => hij h.symm
            simp [hj, hne, hij, this]
        · by_cases hjr : j = r
          · have : ¬ r = i := by omega
            subst hjr; simp [this]
          · have : ¬ j = i := by omega
            simp [hj, hjr, this]
      rw [Finset.sum_congr rfl hterm, Finset.sum_add_distrib, Finset.sum_ite_eq',
        Finset.sum_ite_eq']
      have m1 : i ∈ Finset.range (n + 1) := Finset.mem_range.mpr (by omega)
      have m2 : r ∈ Finset.range (n + 1) := Finset.mem_range.mpr (by omega)
      simp [m1, m2]
    · apply Finset.sum_eq_zero
      intro j _
      by_cases hj : j < r
      · rw [hid i hi j hj]
        have : ¬ i = j := by omega
        simp [this]
      · by_cases hjr : j = r
        · subst hjr
          rw [hz0 i (by omega) hi]; simp
        · simp [hj, hjr]

/-- once the identity block is complete, the last column is a solution -/
theorem readoff_ker_qpc (rows : List (List α)) (n : Nat) (hlen : rows.length = n)
    (hid : IdBlock_qpc n rows) :
    KerRows_qpc n rows (fun j => if j < n then ent_qpc rows j n else -1) := by
  intro i hi
  rw [Finset.sum_range_succ]
  have hterm : ∀ j ∈ Finset.range n,
      ent_qpc rows i j * (if j < n then ent_qpc rows j n else -1) =
        if j = i then ent_qpc rows i n else 0 := by
    intro j hj
    have hj' := Finset.mem_range.mp hj
    rw [hid i hi j hj']
    by_cases hij : i = j
    · subst hij; simp [hj']
    · have : ¬ j = i := fun h => hij h.symm
      simp [hij, this]
  rw [Finset.sum_congr rfl hterm, Finset.sum_ite_eq']
  have m1 : i ∈ Finset.range n := Finset.mem_range.mpr (by omega)
  simp [m1]

/-- the pivot list produced when every column has a pivot -/
def diagPivots_qpc : Nat → List (Nat × Nat)
  | 0 => []
  | r + 1 => (r, r) :: diagPivots_qpc r

theorem diagPivots_length_qpc : ∀ r, (diagPivots_qpc r).length = r
  | 0 => rfl
  | r + 1 => by simp [diagPivots_qpc, diagPivots_length_qpc r]

theorem diagPivots_find_qpc : ∀ (r c : Nat), c < r →
    (diagPivots_qpc r).find? (·.1 == c) = some (c, c)
  | 0, c, h => by omega
  | r + 1, c, h => by
    by_cases hc : r = c
    · subst hc; simp [diagPivots_qpc]
    · have : (r == c) = false := by simpa using hc
      simp only [diagPivots_qpc, List.find?_cons, this]
      exact diagPivots_find_qpc r c (by omega)

/-- invariant of `solve.go` on a system with trivial kernel -/
def GoInv_qpc (n : Nat) (aug : List (List α)) (r : Nat) (rows : List (List α)) : Prop :=
  rows.length = n ∧ (∀ row ∈ rows, row.length = n + 1) ∧
    (∀ z, KerRows_qpc n rows z → KerRows_qpc n aug z) ∧ IdBlock_qpc r rows

theorem go_full_qpc (n : Nat) (aug : List (List α))
    (hker : ∀ z : Nat → α, KerRows_qpc n aug z → z n = 0 → ∀ j, j < n → z j = 0) :
    ∀ (fuel r : Nat) (rows : List (List α)), r ≤ n → n - r < fuel → GoInv_qpc n aug r rows →
      ∃ rows', solve.go n fuel r r rows (diagPivots_qpc r) = (rows', diagPivots_qpc n) ∧
        GoInv_qpc n aug n rows'
  | 0, r, rows, _, h, _ => by omega
  | fuel + 1, r, rows, hrn, hfuel, hinv => by
    rw [solve.go]
    by_cases hge : r ≥ n
    · have : r = n := by omega
      subst this
      exact ⟨rows, by simp, hinv⟩
    · simp only [hge, if_false]
      obtain ⟨hlen, hrl, hk, hid⟩ := hinv
      cases hf : (rows.zipIdx.drop r).find? (fun p => p.1.getD r 0 ≠ 0) with
      | none =>
        exfalso
        obtain ⟨z, hz1, hz2, hz3⟩ := nopivot_ker_qpc rows n r (by omega) hid
          (fun i hri hi => find_none_qpc rows r r hf i hri hi)
        have := hker z (hk z hz3) hz2 r (by omega)
        rw [hz1] at this
        exact one_ne_zero this
      | some p =>
        obtain ⟨prow, pi⟩ := p
        obtain ⟨h1, h2, h3, h4⟩ := find_some_qpc rows r r prow pi hf
        rw [elimStep_some_qpc rows r r prow pi hf]
        simp only [if_true]
        subst h3
        have hpv : ent_qpc rows pi r ≠ 0 := h4
        apply go_full_qpc n aug hker fuel (r + 1) _ (by omega) (by omega)
        refine ⟨by rw [stepRows_length_qpc, hlen], stepRows_rowlen_qpc rows n r r pi hrl h1 h2, ?_,
          stepRows_idBlock_qpc rows n r pi hrl h1 h2 (by omega) hpv hid⟩
        intro z hz
        exact hk z (stepRows_ker_qpc rows n r r pi hrl h1 h2 hpv z hz)

theorem aug_length_qpc (A : Mat α) (b : Vec α) (n : Nat) (hA : A.length = n) (hb : b.length = n) :
    (List.zipWith (fun row bi => row ++ [bi]) A b).length = n := by
  simp [hA, hb]

theorem aug_getD_qpc (A : Mat α) (b : Vec α) (n : Nat) (hA : A.length = n) (hb : b.length = n)
    (i : Nat) (hi : i < n) :
    (List.zipWith (fun row bi => row ++ [bi]) A b).getD i [] = A.getD i [] ++ [b.getD i 0] := by
  simp [List.getD_eq_getElem?_getD, List.getElem?_zipWith,
    List.getElem?_eq_getElem (show i < A.length by omega),
    List.getElem?_eq_getElem (show i < b.length by omega)]

theorem aug_ent_qpc (A : Mat α) (b : Vec α) (n : Nat) (hA : A.length = n)
    (hrow : ∀ row ∈ A, row.length = n) (hb : b.length = n) (i : Nat) (hi : i < n) (j : Nat) :
    ent_qpc (List.zipWith (fun row bi => row ++ [bi]) A b) i j =
      if j < n then ent_qpc A i j else if j = n then b.getD i 0 else 0 := by
  have hl : (A.getD i []).length = n := hrow _ (getD_mem_qpc A [] i (by omega))
  rw [ent_qpc, aug_getD_qpc A b n hA hb i hi, List.getD_eq_getElem?_getD]
  by_cases hj : j < n
  · rw [List.getElem?_append_left (by omega)]
    simp [hj, ent_qpc, List.getD_eq_getElem?_getD]
  · rw [List.getElem?_append_right (by omega), hl]
    by_cases hjn : j = n
    · simp [hjn]
    · have : j - n = (j - n - 1) + 1 := by omega
      rw [this]
      simp [hj, hjn]

/-- Gauss–Jordan succeeds on a square system with trivial kernel and returns a solution -/
theorem solve_complete_qpc (A : Mat α) (b : Vec α) (n : Nat) (hA : A.length = n)
    (hrow : ∀ row ∈ A, row.length = n) (hb : b.length = n)
    (hker : ∀ y : Nat → α, (∀ i, i < n → ∑ j ∈ Finset.range n, ent_qpc A i j * y j = 0) →
      ∀ j, j < n → y j = 0) :
    ∃ x, solve A b n = some x ∧ x.length = n ∧
      ∀ i, i < n → ∑ j ∈ Finset.range n, ent_qpc A i j * x.getD j 0 = b.getD i 0 := by
  have haugl := aug_length_qpc A b n hA hb
  have hauge := aug_ent_qpc A b n hA hrow hb
  -- kernel vectors of the augmented matrix
  have hkaug : ∀ z : Nat → α, KerRows_qpc n (List.zipWith (fun row bi => row ++ [bi]) A b) z →
      ∀ i, i < n → ∑ j ∈ Finset.range n, ent_qpc A i j * z j + b.getD i 0 * z n = 0 := by
    intro z hz i hi
    have := hz i (by omega)
    rw [Finset.sum_range_succ] at this
    refine Eq.trans ?_ this
    congr 1
    · apply Finset.sum_congr rfl
      intro j hj
      rw [hauge i hi j, if_pos (Finset.mem_range.mp hj)]
    · rw [hauge i hi n, if_neg (lt_irrefl n), if_pos rfl]
  have hker' : ∀ z : Nat → α, KerRows_qpc n (List.zipWith (fun row bi => row ++ [bi]) A b) z →
      z n = 0 → ∀ j, j < n → z j = 0 := by
    intro z hz hzn
    apply hker z
    intro i hi
    have := hkaug z hz i hi
    rwa [hzn, mul_zero, add_zero] at this
  have hinv0 : GoInv_qpc n (List.zipWith (fun row bi => row ++ [bi]) A b) 0
      (List.zipWith (fun row bi => row ++ [bi]) A b) := by
    refine ⟨haugl, ?_, fun z hz => hz, fun i _ j hj => by omega⟩
    intro row hr
    obtain ⟨i, hi, rfl⟩ := List.mem_iff_getElem.mp hr
    have hi1 : i < A.length := by simp at hi; omega
    rw [List.getElem_zipWith]
    simp [hrow _ (List.getElem_mem hi1)]
  obtain ⟨rows', hgo, hlen', hrl', hk', hid'⟩ :=
    go_full_qpc n _ hker' (n + 1) 0 _ (by omega) (by omega) hinv0
  have hx : solve A b n = some ((List.range n).map fun c => ent_qpc rows' c n) := by
    unfold solve
    simp only [diagPivots_qpc] at hgo
    simp only [hgo, diagPivots_length_qpc]
    rw [List.drop_of_length_le (by omega)]
    simp only [List.any_nil, Bool.false_eq_true, if_false, Option.some.injEq]
    apply List.map_congr_left
    intro c hc
    rw [diagPivots_find_qpc n c (List.mem_range.mp hc)]
    rfl
  refine ⟨_, hx, by simp, fun i hi => ?_⟩
  have hz := hkaug _ (hk' _ (readoff_ker_qpc rows' n hlen' hid')) i hi
  simp only [lt_irrefl, if_false] at hz
  have e : ∑ j ∈ Finset.range n, ent_qpc A i j * ((List.range n).map fun c => ent_qpc rows' c n).getD j 0 =
      ∑ j ∈ Finset.range n, ent_qpc A i j * (if j < n then ent_qpc rows' j n else -1) := by
    apply Finset.sum_congr rfl
    intro j hj
    have hj' := Finset.mem_range.mp hj
    simp [List.getD_eq_getElem?_getD, List.getElem?_range hj', hj']
  rw [e, eq_neg_of_add_eq_zero_left hz]
  simp

end gauss

/-! ### Part 2: the active set of the KKT point yields the KKT point -/
section candidate
variable {α : Type} [Field α] [LinearOrder α] [IsStrictOrderedRing α]

theorem sum_range_getD_qpc (F : Nat → α) : ∀ (l : List Nat),
    ∑ c ∈ Finset.range l.length, F (l.getD c 0) = (l.map F).sum
  | [] => by simp
  | a :: l => by
    rw [List.length_cons, Finset.sum_range_succ', List.map_cons, List.sum_cons,
      ← sum_range_getD_qpc F l]
    simp [add_comm]

theorem sum_filter_split_qpc (p : Nat → Bool) (g : Nat → α) : ∀ (l : List Nat),
    (l.map g).sum = ((l.filter fun i => !p i).map g).sum + ((l.filter p).map g).sum
  | [] => by simp
  | a :: l => by
    rw [List.map_cons, List.sum_cons, sum_filter_split_qpc p g l]
    cases h : p a
    · simp [h, add_assoc]
    · simp [h, add_left_comm]

theorem sum_map_range_qpc (g : Nat → α) : ∀ (m : Nat),
    ((List.range m).map g).sum = ∑ j ∈ Finset.range m, g j
  | 0 => by simp
  | m + 1 => by
    rw [List.sum_range_succ, Finset.sum_range_succ, sum_map_range_qpc g m]

theorem foldl_sub_qpc (h : Nat → α) : ∀ (l : List Nat) (acc : α),
    l.foldl (fun acc j => acc - h j) acc = acc - (l.map h).sum
  | [], acc => by simp
  | a :: l, acc => by
    rw [List.foldl_cons, foldl_sub_qpc h l, List.map_cons, List.sum_cons]
    ring

/-- splitting a sum over `0..m-1` into free and active indices -/
theorem sum_split_qpc (m : Nat) (p : Nat → Bool) (g : Nat → α) :
    ∑ j ∈ Finset.range m, g j =
      ∑ c ∈ Finset.range ((List.range m).filter fun i => !p i).length,
          g (((List.range m).filter fun i => !p i).getD c 0) +
        (((List.range m).filter p).map g).sum := by
  rw [sum_range_getD_qpc, ← sum_filter_split_qpc, sum_map_range_qpc]

theorem zipIdx_find_qpc : ∀ (l : List Nat) (s k : Nat) (hk : k < l.length), l.Nodup →
    (l.zipIdx s).find? (·.1 == l[k]) = some (l[k], s + k)
  | [], _, _, hk, _ => by simp at hk
  | a :: l, s, 0, _, _ => by simp [List.zipIdx_cons]
  | a :: l, s, k + 1, hk, hnd => by
    have hk' : k < l.length := by simpa using hk
    have hne : a ≠ l[k] := by
      intro h
      have := (List.nodup_cons.mp hnd).1
      exact this (h ▸ List.getElem_mem hk')
    have hb : (a == l[k]) = false := by simpa using hne
    simp only [List.zipIdx_cons, List.getElem_cons_succ, List.find?_cons, hb]
    rw [zipIdx_find_qpc l (s + 1) k hk' (List.nodup_cons.mp hnd).2]
    congr 2
    omega

theorem dot_range_qpc (m : Nat) (x y : Vec α) (h : y.length ≤ m) :
    dot x y = ∑ j ∈ Finset.range m, x.getD j 0 * y.getD j 0 := by
  rw [dot_eq_sum_right m x y h, Finset.sum_range]

def candA_qpc (G : Mat α) (free : List Nat) : Mat α :=
  free.map fun i => free.map fun j => (G.getD i []).getD j 0

def candB_qpc (G : Mat α) (u : Vec α) (free actl : List Nat) : Vec α :=
  free.map fun i => actl.foldl (fun acc j => acc - (G.getD i []).getD j 0 * u.getD j 0) 0

def assemble_qpc (u : Vec α) (act : List Bool) (free : List Nat) (x : Vec α) : Vec α :=
  (List.range u.length).map fun i =>
    if act.getD i false then u.getD i 0
    else match free.zipIdx.find? (·.1 == i) with
      | some (_, k) => x.getD k 0
      | none => 0

/-- free / active indices of an active-set predicate -/
def freeL_qpc (m : Nat) (p : Nat → Bool) : List Nat := (List.range m).filter fun i => !p i
def actL_qpc (m : Nat) (p : Nat → Bool) : List Nat := (List.range m).filter p

theorem qpCandidate_unfold_qpc (G : Mat α) (u : Vec α) (act : List Bool) :
    qpCandidate G u act =
      match solve (candA_qpc G (freeL_qpc u.length fun i => act.getD i false))
        (candB_qpc G u (freeL_qpc u.length fun i => act.getD i false)
          (actL_qpc u.length fun i => act.getD i false))
        (freeL_qpc u.length fun i => act.getD i false).length with
      | none => none
      | some x => some (assemble_qpc u act (freeL_qpc u.length fun i => act.getD i false) x) := rfl


theorem mem_freeL_qpc (m : Nat) (p : Nat → Bool) (i : Nat) :
    i ∈ freeL_qpc m p ↔ i < m ∧ p i = false := by
  simp [freeL_qpc, List.mem_filter, List.mem_range]

theorem mem_actL_qpc (m : Nat) (p : Nat → Bool) (i : Nat) :
    i ∈ actL_qpc m p ↔ i < m ∧ p i = true := by
  simp [actL_qpc, List.mem_filter, List.mem_range]

theorem freeL_nodup_qpc (m : Nat) (p : Nat → Bool) : (freeL_qpc m p).Nodup :=
  List.Nodup.filter _ List.nodup_range

theorem sum_split'_qpc (m : Nat) (p : Nat → Bool) (g : Nat → α) :
    ∑ j ∈ Finset.range m, g j =
      ∑ c ∈ Finset.range (freeL_qpc m p).length, g ((freeL_qpc m p).getD c 0) +
        ((actL_qpc m p).map g).sum := sum_split_qpc m p g

theorem dot_range_left_qpc (m : Nat) (x y : Vec α) (h : x.length ≤ m) :
    dot x y = ∑ j ∈ Finset.range m, x.getD j 0 * y.getD j 0 := by
  rw [dot_eq_sum_left m x y h, Finset.sum_range]

theorem candA_ent_qpc (G : Mat α) (free : List Nat) (a c : Nat) (ha : a < free.length)
    (hc : c < free.length) :
    ent_qpc (candA_qpc G free) a c = ent_qpc G (free.getD a 0) (free.getD c 0) := by
  simp [ent_qpc, candA_qpc, List.getD_eq_getElem?_getD, List.getElem?_eq_getElem ha,
    List.getElem?_eq_getElem hc]

theorem candB_getD_qpc (G : Mat α) (u : Vec α) (free actl : List Nat) (a : Nat)
    (ha : a < free.length) :
    (candB_qpc G u free actl).getD a 0 =
      -((actl.map fun j => ent_qpc G (free.getD a 0) j * u.getD j 0).sum) := by
  have : (candB_qpc G u free actl).getD a 0 =
      actl.foldl (fun acc j => acc - ent_qpc G (free.getD a 0) j * u.getD j 0) 0 := by
    simp [candB_qpc, ent_qpc, List.getD_eq_getElem?_getD, List.getElem?_eq_getElem ha]
  rw [this, foldl_sub_qpc, zero_sub]

/-- the principal submatrix of a positive definite matrix has trivial kernel -/
theorem cand_ker_qpc (G : Mat α) (m : Nat) (hpd : PosDef G m) (p : Nat → Bool) (y : Nat → α)
    (hy : ∀ a, a < (freeL_qpc m p).length →
      ∑ c ∈ Finset.range (freeL_qpc m p).length,
        ent_qpc G ((freeL_qpc m p).getD a 0) ((freeL_qpc m p).getD c 0) * y c = 0) :
    ∀ c, c < (freeL_qpc m p).length → y c = 0 := by
  have hnd := freeL_nodup_qpc m p
  have hmem := mem_freeL_qpc m p
  generalize hfr : freeL_qpc m p = free at hy hnd hmem ⊢
  let v : Vec α := (List.range m).map fun i => if i ∈ free then y (free.idxOf i) else 0
  have hvl : v.length = m := by simp [v]
  have hvget : ∀ i, i < m → v.getD i 0 = if i ∈ free then y (free.idxOf i) else 0 := by
    intro i hi
    simp only [v, List.getD_eq_getElem?_getD, List.getElem?_map, List.getElem?_range hi]
    rfl
  have hvfree : ∀ c, c < free.length → v.getD (free.getD c 0) 0 = y c := by
    intro c hc
    have hm := getD_mem_qpc free 0 c hc
    rw [hvget _ ((hmem _).mp hm).1, if_pos hm]
    congr 1
    rw [List.getD_eq_getElem?_getD, List.getElem?_eq_getElem hc, Option.getD_some]
    exact List.Nodup.idxOf_getElem hnd c hc
  have hvact : ∀ j, j ∈ actL_qpc m p → v.getD j 0 = 0 := by
    intro j hj
    obtain ⟨hjm, hpj⟩ := (mem_actL_qpc m p j).mp hj
    rw [hvget j hjm, if_neg]
    intro h
    have := ((hmem j).mp h).2
    rw [hpj] at this
    exact absurd this (by simp)
  have hinner : ∀ i, ∑ j ∈ Finset.range m, ent_qpc G i j * v.getD j 0 =
      ∑ c ∈ Finset.range free.length, ent_qpc G i (free.getD c 0) * y c := by
    intro i
    rw [sum_split'_qpc m p, hfr, List.sum_eq_zero, add_zero]
    · apply Finset.sum_congr rfl
      intro c hc
      rw [hvfree c (Finset.mem_range.mp hc)]
    · intro x hx
      obtain ⟨j, hj, rfl⟩ := List.mem_map.mp hx
      rw [hvact j hj, mul_zero]
  have hqf : qf G v = 0 := by
    rw [qf, dot_range_left_qpc m v _ hvl.le]
    apply Finset.sum_eq_zero
    intro i hi
    have hi' := Finset.mem_range.mp hi
    rw [matVec_getD, dot_range_qpc m _ v hvl.le]
    have e : ∑ j ∈ Finset.range m, (G.getD i []).getD j 0 * v.getD j 0 =
        ∑ j ∈ Finset.range m, ent_qpc G i j * v.getD j 0 := rfl
    rw [e, hinner i]
    by_cases hif : i ∈ free
    · obtain ⟨a, ha, rfl⟩ := List.mem_iff_getElem.mp hif
      have := hy a ha
      rw [List.getD_eq_getElem?_getD, List.getElem?_eq_getElem ha, Option.getD_some] at this
      rw [this, mul_zero]
    · rw [hvget i hi', if_neg hif, zero_mul]
  intro c hc
  by_contra hne
  have hpos := hpd v hvl ⟨v.getD (free.getD c 0) 0, getD_mem_qpc v 0 _ (by
    rw [hvl]; exact ((hmem _).mp (getD_mem_qpc free 0 c hc)).1), by rw [hvfree c hc]; exact hne⟩
  rw [hqf] at hpos
  exact lt_irrefl _ hpos

/-- if `w` agrees with `u` on the active set and `(G w)_i = 0` on the free set, the candidate built
    for this active set is `w` -/
theorem qpCandidate_eq_qpc (G : Mat α) (m : Nat) (hpd : PosDef G m) (u w : Vec α)
    (hu : u.length = m) (hw : w.length = m) (act : List Bool)
    (hact : ∀ i, i < m → act.getD i false = true → w.getD i 0 = u.getD i 0)
    (hfree : ∀ i, i < m → act.getD i false = false →
      ∑ j ∈ Finset.range m, ent_qpc G i j * w.getD j 0 = 0) :
    qpCandidate G u act = some w := by
  subst hu
  rw [qpCandidate_unfold_qpc]
  generalize hp : (fun i => act.getD i false) = p
  have hpi : ∀ i, act.getD i false = p i := fun i => by rw [← hp]
  have hmemF := mem_freeL_qpc u.length p
  have hmemA := mem_actL_qpc u.length p
  have hnd := freeL_nodup_qpc u.length p
  have hsplit := sum_split'_qpc (α := α) u.length p
  have hkerF := cand_ker_qpc G u.length hpd p
  generalize freeL_qpc u.length p = free at *
  generalize actL_qpc u.length p = actl at *
  have hfl : ∀ c, c < free.length → free.getD c 0 < u.length ∧ p (free.getD c 0) = false :=
    fun c hc => (hmemF _).mp (getD_mem_qpc free 0 c hc)
  have hker : ∀ y : Nat → α, (∀ a, a < free.length →
      ∑ c ∈ Finset.range free.length, ent_qpc (candA_qpc G free) a c * y c = 0) →
      ∀ c, c < free.length → y c = 0 := by
    intro y hy
    apply hkerF y
    intro a ha
    rw [← hy a ha]
    apply Finset.sum_congr rfl
    intro c hc
    rw [candA_ent_qpc G free a c ha (Finset.mem_range.mp hc)]
  obtain ⟨x, hx, hxl, hxs⟩ := solve_complete_qpc (candA_qpc G free) (candB_qpc G u free actl)
    free.length (by simp [candA_qpc])
    (by
      intro row hrow
      simp only [candA_qpc, List.mem_map] at hrow
      obtain ⟨i, _, rfl⟩ := hrow
      simp)
    (by simp [candB_qpc]) hker
  have hxs' : ∀ a, a < free.length →
      ∑ c ∈ Finset.range free.length,
        ent_qpc (candA_qpc G free) a c * (free.map fun i => w.getD i 0).getD c 0 =
      (candB_qpc G u free actl).getD a 0 := by
    intro a ha
    obtain ⟨h1, h2⟩ := hfl a ha
    have h0 := hfree _ h1 (by rw [hpi]; exact h2)
    rw [hsplit] at h0
    rw [candB_getD_qpc G u free actl a ha]
    have e1 : (actl.map fun j => ent_qpc G (free.getD a 0) j * w.getD j 0) =
        actl.map fun j => ent_qpc G (free.getD a 0) j * u.getD j 0 := by
      apply List.map_congr_left
      intro j hj
      obtain ⟨hj1, hj2⟩ := (hmemA j).mp hj
      rw [hact j hj1 (by rw [hpi]; exact hj2)]
    rw [e1] at h0
    rw [← eq_neg_of_add_eq_zero_left h0]
    apply Finset.sum_congr rfl
    intro c hc
    have hc' := Finset.mem_range.mp hc
    rw [candA_ent_qpc G free a c ha hc']
    simp [List.getD_eq_getElem?_getD, List.getElem?_eq_getElem hc']
  have hxeq : x = free.map fun i => w.getD i 0 := by
    apply List.ext_getElem (by simp [hxl])
    intro c h1 h2
    have hc : c < free.length := by omega
    have : x.getD c 0 - (free.map fun i => w.getD i 0).getD c 0 = 0 :=
      hker (fun c => x.getD c 0 - (free.map fun i => w.getD i 0).getD c 0) (by
        intro a ha
        simp only [mul_sub, Finset.sum_sub_distrib]
        rw [hxs a ha, hxs' a ha, sub_self]) c hc
    rw [getD_eq_getElem_qpc _ _ _ h1, getD_eq_getElem_qpc _ _ _ h2] at this
    exact sub_eq_zero.mp this
  rw [hx]
  simp only [Option.some.injEq]
  apply List.ext_getElem (by simp [assemble_qpc, hw])
  intro i h1 h2
  have hi : i < u.length := by simpa [assemble_qpc] using h1
  simp only [assemble_qpc, List.getElem_map, List.getElem_range]
  by_cases hpa : act.getD i false = true
  · rw [if_pos hpa, ← hact i hi hpa, List.getD_eq_getElem?_getD, List.getElem?_eq_getElem h2,
      Option.getD_some]
  · rw [if_neg hpa]
    have hpf : p i = false := by rw [← hpi]; simpa using hpa
    obtain ⟨a, ha, rfl⟩ := List.mem_iff_getElem.mp ((hmemF i).mpr ⟨hi, hpf⟩)
    rw [zipIdx_find_qpc free 0 a ha hnd]
    simp only [zero_add, hxeq]
    simp [List.getD_eq_getElem?_getD, List.getElem?_eq_getElem ha, List.getElem?_eq_getElem h2]

end candidate

/-! ### Part 3: completeness of the search -/
section complete
variable {α : Type} [Field α] [LinearOrder α] [IsStrictOrderedRing α]

/-- `subsetsBool n` enumerates every Boolean list of length `n` -/
theorem mem_subsetsBool_qpc : ∀ (n : Nat) (l : List Bool), l.length = n → l ∈ subsetsBool n
  | 0, l, h => by
    have : l = [] := List.length_eq_zero_iff.mp h
    simp [subsetsBool, this]
  | n + 1, [], h => by simp at h
  | n + 1, b :: l, h => by
    have ih := mem_subsetsBool_qpc n l (by simpa using h)
    rw [subsetsBool, List.mem_flatMap]
    refine ⟨l, ih, ?_⟩
    cases b <;> simp

theorem vsub_getD_qpc (x y : Vec α) (h : x.length = y.length) (i : Nat) :
    (vsub x y).getD i 0 = x.getD i 0 - y.getD i 0 :=
  congrFun (toFn_vsub (i + 1) x y h) ⟨i, Nat.lt_succ_self i⟩

/-- complementary slackness, index by index: off the active set `(G w)_i = 0` -/
theorem kkt_free_zero_qpc (G : Mat α) (m : Nat) (u w : Vec α) (hu : u.length = m)
    (hk : kktCheck G u w = true) (i : Nat) (hi : i < m) (hne : w.getD i 0 ≠ u.getD i 0) :
    ∑ j ∈ Finset.range m, ent_qpc G i j * w.getD j 0 = 0 := by
  obtain ⟨h1, _, h3, h4, h5⟩ := kktCheck_spec G u w hk
  have hw : w.length = m := by omega
  have e : ∑ j ∈ Finset.range m, ent_qpc G i j * w.getD j 0 = dot (G.getD i []) w :=
    (dot_range_qpc m _ w hw.le).symm
  rw [e]
  rw [dot_range_left_qpc m (vsub w u) _ (by rw [vsub_length _ _ (by omega)]; omega)] at h5
  have hnn : ∀ k ∈ Finset.range m, 0 ≤ (vsub w u).getD k 0 * (matVec G w).getD k 0 := by
    intro k hk'
    have hk'' := Finset.mem_range.mp hk'
    rw [vsub_getD_qpc w u (by omega), matVec_getD]
    exact mul_nonneg (sub_nonneg.mpr (h3.2 k (by omega))) (h4 k (by omega))
  have := (Finset.sum_eq_zero_iff_of_nonneg hnn).mp h5 i (Finset.mem_range.mpr hi)
  rw [vsub_getD_qpc w u (by omega), matVec_getD] at this
  rcases mul_eq_zero.mp this with h | h
  · exact absurd (sub_eq_zero.mp h) hne
  · exact h

/-- COMPLETENESS of the certified active-set search: on a symmetric positive definite `G` it never
    fails -/
theorem qpProject_complete (G : Mat α) (m : Nat) (hG : SymmSquare G m) (hpd : PosDef G m)
    (u : Vec α) (hu : u.length = m) : ∃ w mg, qpProject G u = some (w, mg) := by
  obtain ⟨w, hk, _⟩ := qp_exists_list G m hG hpd u hu
  have hw : w.length = m := by
    have := (kktCheck_spec G u w hk).1
    omega
  have hactD : ∀ i, i < m →
      ((List.range m).map fun i => decide (w.getD i 0 = u.getD i 0)).getD i false =
        decide (w.getD i 0 = u.getD i 0) := by
    intro i hi
    simp [List.getD_eq_getElem?_getD, List.getElem?_range hi]
  have hcand : qpCandidate G u ((List.range m).map fun i => decide (w.getD i 0 = u.getD i 0)) =
      some w := by
    apply qpCandidate_eq_qpc G m hpd u w hu hw
    · intro i hi h
      rw [hactD i hi] at h
      exact of_decide_eq_true h
    · intro i hi h
      rw [hactD i hi] at h
      exact kkt_free_zero_qpc G m u w hu hk i hi (of_decide_eq_false h)
  have hsome : (qpProject G u).isSome = true := by
    unfold qpProject
    rw [List.findSome?_isSome_iff]
    refine ⟨_, mem_subsetsBool_qpc u.length
      ((List.range m).map fun i => decide (w.getD i 0 = u.getD i 0)) (by simp [hu]), ?_⟩
    rw [hcand]
    simp [hk]
  obtain ⟨⟨w', mg⟩, h⟩ := Option.isSome_iff_exists.mp hsome
  exact ⟨w', mg, h⟩

theorem dualprojWeights_complete (J : Mat α) (m n : Nat) (hJ : MatWF J m n) (s normEps regEps : α)
    (hre : 0 < regEps) (u : Vec α) (hu : u.length = m) :
    ∃ w mg, dualprojWeights J s normEps regEps u = some (w, mg) :=
  qpProject_complete _ m (regNormGram_symmSquare J m n hJ s normEps regEps)
    (regNormGram_pd J m n hJ s normEps regEps hre) u hu

theorem upgradWeights_complete (J : Mat α) (m n : Nat) (hJ : MatWF J m n) (s normEps regEps : α)
    (hre : 0 < regEps) (u : Vec α) (hu : u.length = m) :
    ∃ w mg, upgradWeights J s normEps regEps u = some (w, mg) := by
  unfold upgradWeights
  simp only
  rw [if_pos]
  · exact ⟨_, _, rfl⟩
  · rw [List.all_eq_true]
    intro o ho
    obtain ⟨i, _, rfl⟩ := List.mem_map.mp ho
    obtain ⟨w, mg, h⟩ := qpProject_complete _ m (regNormGram_symmSquare J m n hJ s normEps regEps)
      (regNormGram_pd J m n hJ s normEps regEps hre)
      ((List.range u.length).map fun j => if j = i then u.getD i 0 else 0) (by simp [hu])
    rw [h]
    rfl

/-- total correctness: the search returns (exactly) the unique minimiser -/
theorem qpProject_total_qpc (G : Mat α) (m : Nat) (hG : SymmSquare G m) (hpd : PosDef G m)
    (u : Vec α) (hu : u.length = m) :
    ∃ w mg, qpProject G u = some (w, mg) ∧ IsQPMin G u w ∧ ∀ w', IsQPMin G u w' → w' = w := by
  obtain ⟨w, mg, h⟩ := qpProject_complete G m hG hpd u hu
  have hmin := qpProject_isQPMin G m hG hpd u w hu mg h
  exact ⟨w, mg, h, hmin, fun w' hw' => isQPMin_unique G m hG hpd u w' w hu hw' hmin⟩

end complete
end Tjd.Agg
