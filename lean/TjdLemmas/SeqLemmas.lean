/-
  Helper lemmas for the history theorems `Tjd.Props.C06.backward_sequence` (a sequence of `backward` calls through a
  stateful aggregator) and `Tjd.Props.C19.clipped_run_eq_clip_of_unclipped` (the `max_norm` clip never enters NashMTL's
  state).
-/
import Mathlib.Algebra.Ring.Defs
import Mathlib.Algebra.Order.Field.Basic
import TjdModel.Agg.Nash
import TjdLemmas.NashLemmas
import TjdProps.C01

namespace Tjd.Autojac
open Tjd Tjd.Props.C01

section
variable {α : Type} [Semiring α]

/-- a history of `backward` calls, call `j` made with the aggregator `As[j]` that maps the Jacobian to `vs[j]`:
    the requested `.grad`s accumulate the slices of `vs[0]`, `vs[1]`, … in that order, nothing else changes -/
theorem backward_sequence' (E : Engine α) (tensors inputs : List Key)
    (As : List (Mat α → Except Err (Vec α))) (vs : List (Vec α)) (chunk : Option Int) (retain : Bool)
    (h : Grads α) (hv : ValidCall E tensors inputs chunk) (hne : inputs ≠ []) (hl : As.length = vs.length)
    (hA : ∀ j, j < As.length →
      (As.getD j (fun _ => .error Err.value)) (fullJac E tensors inputs) = .ok (vs.getD j []) ∧
      (vs.getD j []).length = (inputs.map E.numel).sum) (k : Key) :
    (As.foldl (fun g A => (backward E tensors inputs A chunk retain g).grads) h) k =
      if k ∈ inputs then vs.foldl (fun g v => accum g (sliceOf E.numel inputs k v)) (h k) else h k := by
  induction As generalizing h vs with
  | nil =>
    cases vs with
    | nil => simp
    | cons v vs => simp at hl
  | cons A As ih =>
    cases vs with
    | nil => simp at hl
    | cons v vs =>
      have h0 := hA 0 (by simp)
      have hA0 : A (fullJac E tensors inputs) = .ok v := by simpa using h0.1
      have hlen0 : v.length = (inputs.map E.numel).sum := by simpa using h0.2
      have hstep := (backward_eq_spec E tensors inputs A chunk retain h hv hne v hA0 hlen0).2
      have hl' : As.length = vs.length := by simpa using hl
      have hA' : ∀ j, j < As.length →
          (As.getD j (fun _ => .error Err.value)) (fullJac E tensors inputs) = .ok (vs.getD j []) ∧
          (vs.getD j []).length = (inputs.map E.numel).sum := by
        intro j hj
        have := hA (j + 1) (by simpa using hj)
        simpa using this
      rw [List.foldl_cons, List.foldl_cons,
        ih vs (backward E tensors inputs A chunk retain h).grads hl' hA', hstep k]
      by_cases hk : k ∈ inputs <;> simp [hk]

end
end Tjd.Autojac

namespace Tjd.Agg
open Tjd

section
variable {α : Type} [Field α] [LinearOrder α] [IsStrictOrderedRing α]

omit [IsStrictOrderedRing α] in
/-- without `max_norm` the rescaling is the identity -/
theorem nashRescale_zero_seq (norm : Mat α → Vec α → α) (J : Mat α) (a : Vec α) :
    nashRescale norm 0 J a = a := by
  unfold nashRescale
  rw [if_neg (lt_irrefl 0)]

omit [IsStrictOrderedRing α] in
theorem nashRun_call_seq (solve : Mat α → Vec α → Vec α) (norm : Mat α → Vec α → α) (m k : Nat)
    (maxNorm : α) (st : NashState α) (J : Mat α) (ops : List (NashOp α)) :
    nashRun solve norm m k maxNorm st (.call J :: ops) =
      ((nashStep solve k st J).2.1, nashRescale norm maxNorm J (nashStep solve k st J).2.1,
        (nashStep solve k st J).2.2) ::
        nashRun solve norm m k maxNorm (nashStep solve k st J).1 ops := by
  rfl

omit [IsStrictOrderedRing α] in
/-- the clip never enters the state: same unclipped weights and solver invocations as the run without clipping, and the
    returned weights are the clip of the unclipped ones of the same call -/
theorem nashRun_clip (solve : Mat α → Vec α → Vec α) (norm : Mat α → Vec α → α) (m k : Nat)
    (maxNorm : α) (st : NashState α) (ops : List (NashOp α)) :
    (nashRun solve norm m k maxNorm st ops).map (fun o => (o.1, o.2.2)) =
      (nashRun solve norm m k 0 st ops).map (fun o => (o.1, o.2.2)) ∧
    ∀ i, i < (nashRun solve norm m k maxNorm st ops).length →
      ∃ J, ((nashRun solve norm m k maxNorm st ops).getD i ([], [], false)).2.1 =
        nashRescale norm maxNorm J ((nashRun solve norm m k 0 st ops).getD i ([], [], false)).2.1 := by
  induction ops generalizing st with
  | nil =>
    refine ⟨rfl, ?_⟩
    intro i hi
    simp [nashRun] at hi
  | cons op ops ih =>
    cases op with
    | reset =>
      have e : ∀ mn : α, nashRun solve norm m k mn st (.reset :: ops) =
          nashRun solve norm m k mn (nashFresh m) ops := fun _ => rfl
      rw [e maxNorm, e 0]
      exact ih (nashFresh m)
    | call J =>
      rw [nashRun_call_seq solve norm m k maxNorm, nashRun_call_seq solve norm m k 0]
      obtain ⟨ih1, ih2⟩ := ih (nashStep solve k st J).1
      refine ⟨?_, ?_⟩
      · rw [List.map_cons, List.map_cons, ih1]
      · intro i hi
        cases i with
        | zero =>
          refine ⟨J, ?_⟩
          simp only [List.getD_cons_zero]
          rw [nashRescale_zero_seq]
        | succ i =>
          simp only [List.getD_cons_succ]
          exact ih2 i (by simpa using hi)

end
end Tjd.Agg
