-- two late helper lemmas: exclusions that are never met are irrelevant (C12); the QP minimiser is scale-invariant (C03)
import Mathlib.Algebra.Order.Field.Basic
import TjdModel.Agg.Spec
import TjdLemmas.C12Lemmas
import TjdLemmas.HomogLemmas

namespace Tjd.Leaves

theorem starts_no_excl_c12x (roots excl : List (Nat × Nat)) (hroots : ∀ r ∈ roots, r ∉ excl) :
    starts roots excl = starts roots [] := by
  unfold starts
  congr 1
  apply List.filter_congr
  intro r hr
  simp [hroots r hr]

theorem reaches_mono_c12x (G : Graph) (excl : List (Nat × Nat)) {r n : Nat}
    (h : Reaches G excl r n) : Reaches G [] r n := by
  induction h with
  | refl => exact Reaches.refl _
  | step b c nr _ he _ ih => exact Reaches.step _ b c nr ih he (List.not_mem_nil)

theorem reaches_lift_c12x (G : Graph) (excl : List (Nat × Nat)) {r n : Nat}
    (hmeet : ∀ b, Reaches G [] r b → ∀ e ∈ edgesOf G b, e ∉ excl)
    (h : Reaches G [] r n) : Reaches G excl r n := by
  induction h with
  | refl => exact Reaches.refl _
  | step b c nr hab he _ ih =>
      exact Reaches.step _ b c nr ih he (hmeet b hab (c, nr) he)

theorem exclusion_irrelevant_c12x (G : Graph) (roots excl : List (Nat × Nat))
    (hG : ∀ n, n < G.length → ∀ e ∈ edgesOf G n, e.1 < G.length)
    (hr : ∀ r ∈ roots, r.1 < G.length) (hroots : ∀ r ∈ roots, r ∉ excl)
    (hmeet : ∀ r ∈ roots, ∀ b, Reaches G [] r.1 b → ∀ e ∈ edgesOf G b, e ∉ excl) (n : Nat) :
    n ∈ descendantAccs G roots excl ↔ n ∈ descendantAccs G roots [] := by
  rw [descendantAccs_spec G roots excl hG hr n, descendantAccs_spec G roots [] hG hr n,
    starts_no_excl_c12x roots excl hroots]
  constructor
  · rintro ⟨hacc, r, hrs, hreach⟩
    exact ⟨hacc, r, hrs, reaches_mono_c12x G excl hreach⟩
  · rintro ⟨hacc, r, hrs, hreach⟩
    refine ⟨hacc, r, hrs, ?_⟩
    obtain ⟨t, ht, rfl⟩ := List.mem_map.1 hrs
    exact reaches_lift_c12x G excl (hmeet t (List.mem_filter.1 ht).1) hreach

end Tjd.Leaves

namespace Tjd.Agg

variable {α : Type} [Field α] [LinearOrder α] [IsStrictOrderedRing α]

theorem qf_map_smul_c12x (G : Mat α) (c : α) (v : Vec α) :
    qf (G.map (smul c)) v = c * qf G v := by
  unfold qf
  rw [Homog.matVec_map_smul, Homog.dot_smul_right]

theorem isQPMin_scale_c12x (G : Mat α) (u w : Vec α) (c : α) (hc : 0 < c) :
    IsQPMin (G.map (smul c)) u w ↔ IsQPMin G u w := by
  unfold IsQPMin
  simp only [qf_map_smul_c12x]
  constructor
  · rintro ⟨h1, h2⟩
    exact ⟨h1, fun v hv => le_of_mul_le_mul_left (h2 v hv) hc⟩
  · rintro ⟨h1, h2⟩
    exact ⟨h1, fun v hv => mul_le_mul_of_nonneg_left (h2 v hv) hc.le⟩

end Tjd.Agg
