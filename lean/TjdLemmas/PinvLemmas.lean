/- helper lemmas for TjdProps/C17b.lean: the certificate of the pseudo-inverse of a symmetric matrix
   (`x = G u`, `G (G x - d) = 0`) determines the vector, means least squares / minimum norm / Penrose, and the
   invariances of `imtlgWeightsP` / `configVecP` derived from it.  Every helper name ends in `_pinv`. -/
import Mathlib.Algebra.Order.Field.Basic
import Mathlib.Algebra.BigOperators.Fin
import Mathlib.Algebra.Order.BigOperators.Group.Finset
import Mathlib.Data.Matrix.Mul
import Mathlib.Tactic.Ring
import Mathlib.Tactic.Abel
import Mathlib.Tactic.Linarith
import TjdModel.Agg.Spec2
import TjdLemmas.QPBridge
import TjdLemmas.QPKkt
import TjdLemmas.GramLemmas
import TjdLemmas.PermLemmas
namespace Tjd.Agg
open Tjd Matrix
set_option linter.unusedSectionVars false
set_option linter.unusedSimpArgs false
set_option linter.unusedVariables false

/-! ### function level: `Fin m → α`, `A` symmetric -/
section fn_pinv
variable {α : Type} [Field α] [LinearOrder α] [IsStrictOrderedRing α] {m : Nat}

theorem dot_self_nonneg_pinv (v : Fin m → α) : 0 ≤ v ⬝ᵥ v :=
  Finset.sum_nonneg fun i _ => mul_self_nonneg (v i)

theorem dot_self_zero_pinv (v : Fin m → α) (h : v ⬝ᵥ v = 0) : v = 0 := by
  funext i
  have := (Finset.sum_eq_zero_iff_of_nonneg (fun i _ => mul_self_nonneg (v i))).mp h i
    (Finset.mem_univ i)
  exact mul_self_eq_zero.mp this

/-- symmetry: `⟨A a, b⟩ = ⟨a, A b⟩` -/
theorem mulVec_symm_pinv (A : Matrix (Fin m) (Fin m) α) (hA : Aᵀ = A) (a b : Fin m → α) :
    (A *ᵥ a) ⬝ᵥ b = a ⬝ᵥ (A *ᵥ b) := by
  rw [dotProduct_comm, qfF_symm A hA a b]

/-- `A A e = 0 ⇒ A e = 0` -/
theorem AA_zero_pinv (A : Matrix (Fin m) (Fin m) α) (hA : Aᵀ = A) (e : Fin m → α)
    (h : A *ᵥ (A *ᵥ e) = 0) : A *ᵥ e = 0 := by
  apply dot_self_zero_pinv
  rw [mulVec_symm_pinv A hA, h, dotProduct_zero]

theorem unique_fn_pinv (A : Matrix (Fin m) (Fin m) α) (hA : Aᵀ = A) (d u u' : Fin m → α)
    (hr : A *ᵥ (A *ᵥ (A *ᵥ u) - d) = 0) (hr' : A *ᵥ (A *ᵥ (A *ᵥ u') - d) = 0) :
    A *ᵥ u = A *ᵥ u' := by
  have h1 : A *ᵥ (A *ᵥ (A *ᵥ (u - u'))) = 0 := by
    simp only [mulVec_sub] at hr hr' ⊢
    rw [sub_eq_zero] at hr hr' ⊢
    rw [hr, hr']
  have h2 := AA_zero_pinv A hA _ h1
  have h3 : A *ᵥ (u - u') = 0 := by
    apply dot_self_zero_pinv
    rw [mulVec_symm_pinv A hA, h2, dotProduct_zero]
  rw [mulVec_sub, sub_eq_zero] at h3
  exact h3

theorem ls_fn_pinv (A : Matrix (Fin m) (Fin m) α) (hA : Aᵀ = A) (d x z : Fin m → α)
    (hr : A *ᵥ (A *ᵥ x - d) = 0) :
    (A *ᵥ x - d) ⬝ᵥ (A *ᵥ x - d) ≤ (A *ᵥ z - d) ⬝ᵥ (A *ᵥ z - d) := by
  have e : A *ᵥ z - d = (A *ᵥ x - d) + A *ᵥ (z - x) := by
    rw [mulVec_sub]; abel
  have hc : (A *ᵥ x - d) ⬝ᵥ A *ᵥ (z - x) = 0 := by
    rw [← mulVec_symm_pinv A hA, hr, zero_dotProduct]
  have hc' : A *ᵥ (z - x) ⬝ᵥ (A *ᵥ x - d) = 0 := by rw [dotProduct_comm, hc]
  rw [e, add_dotProduct, dotProduct_add, dotProduct_add, hc, hc']
  have := dot_self_nonneg_pinv (A *ᵥ (z - x))
  linarith

theorem minnorm_fn_pinv (A : Matrix (Fin m) (Fin m) α) (hA : Aᵀ = A) (d u z : Fin m → α)
    (hr : A *ᵥ (A *ᵥ (A *ᵥ u) - d) = 0) (hrz : A *ᵥ (A *ᵥ z - d) = 0) :
    (A *ᵥ u) ⬝ᵥ (A *ᵥ u) ≤ z ⬝ᵥ z := by
  have h1 : A *ᵥ (A *ᵥ (z - A *ᵥ u)) = 0 := by
    simp only [mulVec_sub] at hr hrz ⊢
    rw [sub_eq_zero] at hr hrz ⊢
    rw [hr, hrz]
  have h2 := AA_zero_pinv A hA _ h1
  have hc : (A *ᵥ u) ⬝ᵥ (z - A *ᵥ u) = 0 := by
    rw [mulVec_symm_pinv A hA, h2, dotProduct_zero]
  have hc' : (z - A *ᵥ u) ⬝ᵥ (A *ᵥ u) = 0 := by rw [dotProduct_comm, hc]
  have e : z = A *ᵥ u + (z - A *ᵥ u) := by abel
  conv_rhs => rw [e]
  rw [add_dotProduct, dotProduct_add, dotProduct_add, hc, hc']
  have := dot_self_nonneg_pinv (z - A *ᵥ u)
  linarith

/-- a Penrose inverse applied to `d` is certified -/
theorem penrose_fn_pinv (A P : Matrix (Fin m) (Fin m) α) (hA : Aᵀ = A)
    (h1 : A * P * A = A) (h2 : P * A * P = P) (h3 : (A * P)ᵀ = A * P) (h4 : (P * A)ᵀ = P * A)
    (d : Fin m → α) :
    P *ᵥ d = A *ᵥ ((Pᵀ * P) *ᵥ d) ∧ A *ᵥ (A *ᵥ (P *ᵥ d) - d) = 0 := by
  have hAAP : A * (A * P) = A := by
    have e : (A * P * A)ᵀ = A * (A * P) := by rw [transpose_mul, h3, hA]
    rw [← e, h1, hA]
  have hP : P = A * (Pᵀ * P) := by
    have e : (P * A)ᵀ = A * Pᵀ := by rw [transpose_mul, hA]
    conv_lhs => rw [← h2, ← h4, e]
    rw [Matrix.mul_assoc]
  constructor
  · conv_lhs => rw [hP]
    rw [mulVec_mulVec]
  · rw [mulVec_sub, mulVec_mulVec, mulVec_mulVec, Matrix.mul_assoc, hAAP, sub_self]

end fn_pinv

/-! ### list level: the certificate -/
section list_pinv
variable {α : Type} [Field α] [LinearOrder α] [IsStrictOrderedRing α]

/-- what the certified search returns (with the length of the witness) -/
theorem pinvApply_spec_pinv (G : Mat α) (d x : Vec α) (h : pinvApply G d = some x) :
    ∃ u, u.length = d.length ∧ x = matVec G u ∧
      matVec G (vsub (matVec G x) d) = zeros d.length := by
  unfold pinvApply at h
  simp only at h
  cases hsol : solve (mulT (mulT G G) G) (matVec G d) d.length with
  | none => rw [hsol] at h; exact absurd h (by simp)
  | some u =>
    rw [hsol] at h
    simp only at h
    by_cases hc : pinvCert G d u (matVec G u) = true
    · rw [if_pos hc] at h
      have hx : matVec G u = x := Option.some.inj h
      simp only [pinvCert, Bool.and_eq_true, decide_eq_true_eq] at hc
      refine ⟨u, Eqv.solve_length _ _ _ _ hsol, hx.symm, ?_⟩
      rw [← hx]; exact hc.2
    · rw [if_neg hc] at h; exact absurd h (by simp)

theorem pinvApply_cert (G : Mat α) (d x : Vec α) (h : pinvApply G d = some x) :
    ∃ u, x = matVec G u ∧ matVec G (vsub (matVec G x) d) = zeros d.length := by
  obtain ⟨u, _, h1, h2⟩ := pinvApply_spec_pinv G d x h
  exact ⟨u, h1, h2⟩

/-- the list certificate in function form -/
theorem cert_fn_pinv (G : Mat α) (m : Nat) (hG : SymmSquare G m) (d x : Vec α) (hd : d.length = m)
    (hx : x.length ≤ m) (hr : matVec G (vsub (matVec G x) d) = zeros m) :
    toMat m m G *ᵥ (toMat m m G *ᵥ toFn m x - toFn m d) = 0 := by
  have hl : (matVec G x).length = d.length := by rw [matVec_length, hG.1, hd]
  have := congrArg (toFn m) hr
  rw [toFn_zeros, toFn_matVec m m G _ (by rw [vsub_length _ _ hl, matVec_length, hG.1]),
    toFn_vsub m _ _ hl, toFn_matVec m m G x hx] at this
  exact this

theorem pinv_cert_unique_list (G : Mat α) (m : Nat) (hG : SymmSquare G m) (d u u' : Vec α)
    (hd : d.length = m) (hu : u.length = m) (hu' : u'.length = m)
    (hr : matVec G (vsub (matVec G (matVec G u)) d) = zeros m)
    (hr' : matVec G (vsub (matVec G (matVec G u')) d) = zeros m) :
    matVec G u = matVec G u' := by
  have hA := toMat_symm m G hG
  have hml : ∀ v : Vec α, (matVec G v).length = m := fun v => by rw [matVec_length, hG.1]
  have c := cert_fn_pinv G m hG d _ hd (hml u).le hr
  have c' := cert_fn_pinv G m hG d _ hd (hml u').le hr'
  rw [toFn_matVec m m G u hu.le] at c
  rw [toFn_matVec m m G u' hu'.le] at c'
  apply toFn_injective m _ _ (hml u) (hml u')
  rw [toFn_matVec m m G u hu.le, toFn_matVec m m G u' hu'.le]
  exact unique_fn_pinv _ hA _ _ _ c c'

theorem pinv_least_squares_list (G : Mat α) (m : Nat) (hG : SymmSquare G m) (d x : Vec α)
    (hd : d.length = m) (hx : x.length = m) (hr : matVec G (vsub (matVec G x) d) = zeros m)
    (z : Vec α) (hz : z.length = m) :
    sqnorm (vsub (matVec G x) d) ≤ sqnorm (vsub (matVec G z) d) := by
  have hA := toMat_symm m G hG
  have hml : ∀ v : Vec α, (matVec G v).length = d.length := fun v => by
    rw [matVec_length, hG.1, hd]
  have hvl : ∀ v : Vec α, (vsub (matVec G v) d).length ≤ m := fun v => by
    rw [vsub_length _ _ (hml v), hml v, hd]
  have c := cert_fn_pinv G m hG d x hd hx.le hr
  unfold sqnorm
  rw [dot_eq_left m _ _ (hvl x), dot_eq_left m _ _ (hvl z), toFn_vsub m _ _ (hml x),
    toFn_vsub m _ _ (hml z), toFn_matVec m m G x hx.le, toFn_matVec m m G z hz.le]
  exact ls_fn_pinv _ hA _ _ _ c

theorem pinv_min_norm_list (G : Mat α) (m : Nat) (hG : SymmSquare G m) (d u z : Vec α)
    (hd : d.length = m) (hu : u.length = m) (hz : z.length = m)
    (hr : matVec G (vsub (matVec G (matVec G u)) d) = zeros m)
    (hrz : matVec G (vsub (matVec G z) d) = zeros m) :
    sqnorm (matVec G u) ≤ sqnorm z := by
  have hA := toMat_symm m G hG
  have hml : ∀ v : Vec α, (matVec G v).length = m := fun v => by rw [matVec_length, hG.1]
  have c := cert_fn_pinv G m hG d _ hd (hml u).le hr
  have cz := cert_fn_pinv G m hG d z hd hz.le hrz
  rw [toFn_matVec m m G u hu.le] at c
  unfold sqnorm
  rw [dot_eq_left m _ _ (hml u).le, dot_eq_left m _ _ hz.le, toFn_matVec m m G u hu.le]
  exact minnorm_fn_pinv _ hA _ _ _ c cz

theorem pinv_eq_penrose_list (G : Mat α) (m : Nat) (hG : SymmSquare G m)
    (P : Matrix (Fin m) (Fin m) α)
    (h1 : toMat m m G * P * toMat m m G = toMat m m G) (h2 : P * toMat m m G * P = P)
    (h3 : (toMat m m G * P)ᵀ = toMat m m G * P) (h4 : (P * toMat m m G)ᵀ = P * toMat m m G)
    (d x : Vec α) (hd : d.length = m) (h : pinvApply G d = some x) :
    toFn m x = P *ᵥ toFn m d := by
  have hA := toMat_symm m G hG
  obtain ⟨u, hul, hxu, hr⟩ := pinvApply_spec_pinv G d x h
  rw [hd] at hul hr
  have hxl : x.length = m := by rw [hxu, matVec_length, hG.1]
  have c := cert_fn_pinv G m hG d x hd hxl.le hr
  obtain ⟨p1, p2⟩ := penrose_fn_pinv _ P hA h1 h2 h3 h4 (toFn m d)
  have e : toFn m x = toMat m m G *ᵥ toFn m u := by rw [hxu, toFn_matVec m m G u hul.le]
  rw [e] at c ⊢
  rw [p1] at p2 ⊢
  exact unique_fn_pinv _ hA _ _ _ c p2

theorem pinv_eq_solution_list (G : Mat α) (m : Nat) (hG : SymmSquare G m) (hpd : PosDef G m)
    (d v x : Vec α) (hd : d.length = m) (hv : v.length = m) (hs : matVec G v = d)
    (h : pinvApply G d = some x) : x = v := by
  have hA := toMat_symm m G hG
  obtain ⟨u, hul, hxu, hr⟩ := pinvApply_spec_pinv G d x h
  rw [hd] at hul hr
  have hxl : x.length = m := by rw [hxu, matVec_length, hG.1]
  have c := cert_fn_pinv G m hG d x hd hxl.le hr
  have hdv : toFn m d = toMat m m G *ᵥ toFn m v := by rw [← hs, toFn_matVec m m G v hv.le]
  rw [hdv, ← mulVec_sub] at c
  have h2 := AA_zero_pinv _ hA _ c
  apply toFn_injective m x v hxl hv
  by_contra hne
  have hne' : toFn m x - toFn m v ≠ 0 := sub_ne_zero.mpr hne
  have := pd_fn m G hpd _ hne'
  rw [h2, dotProduct_zero] at this
  exact lt_irrefl _ this

end list_pinv

/-! ### IMTL-G at any rank -/
section imtlg_pinv
variable {α : Type} [Field α] [LinearOrder α] [IsStrictOrderedRing α]

theorem imtlgP_mulRight (J Q : Mat α) (m n : Nat) (hJ : MatWF J m n) (hQ : Orthogonal Q n)
    (d : Vec α) (guard : α) :
    imtlgWeightsP (mulRight n J Q) d guard = imtlgWeightsP J d guard := by
  unfold imtlgWeightsP
  rw [Eqv.gram_mulRight J Q m n hJ hQ]

theorem imtlgP_spec_pinv (J : Mat α) (d : Vec α) (guard : α) (w : Vec α)
    (h : imtlgWeightsP J d guard = some w) :
    ∃ v : Vec α, pinvApply (gram J) d = some v ∧
      w = if absV v.sum ≤ guard * (v.map absV).sum then zeros d.length else v.map (· / v.sum) := by
  unfold imtlgWeightsP at h
  cases hp : pinvApply (gram J) d with
  | none => rw [hp] at h; exact absurd h (by simp)
  | some v =>
    rw [hp] at h
    simp only at h
    refine ⟨v, rfl, ?_⟩
    split_ifs at h ⊢ <;> exact (Option.some.inj h).symm

theorem imtlgP_agrees (J : Mat α) (m n : Nat) (hJ : MatWF J m n) (hpd : PosDef (gram J) m)
    (d : Vec α) (hd : d.length = m) (guard : α) (w w' : Vec α)
    (h : imtlgWeights J d guard = some w) (h' : imtlgWeightsP J d guard = some w') : w' = w := by
  obtain ⟨v, hvl, hv, hw⟩ := Homog.imtlg_spec J d guard w h
  obtain ⟨v', hp, hw'⟩ := imtlgP_spec_pinv J d guard w' h'
  have := pinv_eq_solution_list (gram J) m (gram_symmSquare J m n hJ) hpd d v v' hd
    (hvl.trans hd) hv hp
  rw [hw, hw', this]

theorem pinvApply_length_pinv (G : Mat α) (d x : Vec α) (h : pinvApply G d = some x) :
    x.length = G.length := by
  obtain ⟨u, _, hxu, _⟩ := pinvApply_spec_pinv G d x h
  rw [hxu, matVec_length]

theorem permV_vsub_pinv [Inhabited α] (p : List Nat) (m : Nat) (hp : p.Perm (List.range m))
    (x y : Vec α) (hx : x.length = m) (hy : y.length = m) :
    permV p (vsub x y) = vsub (permV p x) (permV p y) := by
  simp only [permV, vsub]
  rw [Eqv.zipWith_map_self]
  apply List.map_congr_left
  intro i hi
  have hi' : i < m := Eqv.perm_lt hp i hi
  rw [Eqv.getD_eq_getElem' _ _ i (by simp [hx, hy, hi']), Eqv.getD_eq_getElem' _ _ i (by omega),
    Eqv.getD_eq_getElem' _ _ i (by omega), List.getElem_zipWith]

/-- the certified vector of the row-permuted problem is the permuted certified vector -/
theorem pinvApply_perm_pinv [Inhabited α] (J : Mat α) (m n : Nat) (hJ : MatWF J m n) (d : Vec α)
    (hd : d.length = m) (p : List Nat) (hp : p.Perm (List.range m)) (v v' : Vec α)
    (h : pinvApply (gram J) d = some v)
    (h' : pinvApply (gram (permV p J)) (permV p d) = some v') : v' = permV p v := by
  have hpl := Eqv.perm_length hp
  have hS := gram_symmSquare J m n hJ
  have hgl := hS.1
  have hgr := hS.2.1
  have hml : ∀ z : Vec α, (matVec (gram J) z).length = m := fun z => by rw [matVec_length, hgl]
  obtain ⟨u, hul, hvu, hr⟩ := pinvApply_spec_pinv _ d v h
  obtain ⟨u', hul', hvu', hr'⟩ := pinvApply_spec_pinv _ _ v' h'
  rw [Eqv.permV_length, hpl] at hul' hr'
  rw [hd] at hul hr
  rw [Eqv.gram_row_perm' J m n hJ p (Eqv.perm_lt hp)] at hvu' hr'
  obtain ⟨u0, hu0, rfl⟩ := Eqv.permV_surj m p hp u' hul'
  rw [Eqv.matVec_permV _ m hgl hgr u0 hu0 p hp] at hvu'
  subst hvu'
  have hvl : (vsub (matVec (gram J) (matVec (gram J) u0)) d).length = m := by
    rw [vsub_length _ _ (by rw [hml, hd]), hml]
  rw [Eqv.matVec_permV _ m hgl hgr _ (hml u0) p hp, ← permV_vsub_pinv p m hp _ _ (hml _) hd,
    Eqv.matVec_permV _ m hgl hgr _ hvl p hp, ← PermL.permV_zeros p m hp] at hr'
  have hr0 := PermL.permV_inj m p hp _ _ (hml _) (zeros_length m) hr'
  rw [hvu] at hr ⊢
  rw [pinv_cert_unique_list (gram J) m hS d u u0 hd hul hu0 hr hr0]

theorem imtlgP_perm [Inhabited α] (J : Mat α) (m n : Nat) (hJ : MatWF J m n) (d : Vec α)
    (hd : d.length = m) (guard : α) (p : List Nat) (hp : p.Perm (List.range m)) (w w' : Vec α)
    (h : imtlgWeightsP J d guard = some w)
    (h' : imtlgWeightsP (permV p J) (permV p d) guard = some w') :
    combine n (permV p J) w' = combine n J w := by
  have hpl := Eqv.perm_length hp
  obtain ⟨v, hpv, hwv⟩ := imtlgP_spec_pinv J d guard w h
  obtain ⟨v', hpv', hwv'⟩ := imtlgP_spec_pinv _ _ guard w' h'
  rw [Eqv.permV_length, hpl] at hwv'
  rw [hd] at hwv
  have hvl : v.length = m := by
    rw [pinvApply_length_pinv _ _ _ hpv, gram_length, hJ.1]
  have hvv := pinvApply_perm_pinv J m n hJ d hd p hp v v' hpv hpv'
  subst hvv
  have hperm := Eqv.permV_perm p v (by rw [hvl]; exact hp)
  have e1 : (permV p v).sum = v.sum := hperm.sum_eq
  have e2 : ((permV p v).map absV).sum = (v.map absV).sum := (hperm.map _).sum_eq
  rw [e1, e2] at hwv'
  have hww : w' = permV p w := by
    rw [hwv, hwv']
    split_ifs
    · exact (PermL.permV_zeros p m hp).symm
    · exact (PermL.permV_map p m hp _ v hvl).symm
  have hwl : w.length = m := by
    rw [hwv]; split_ifs
    · exact zeros_length m
    · rw [List.length_map, hvl]
  rw [hww]
  exact Eqv.combine_row_perm' J m n hJ w hwl p hp

/-- the certified vector of the rescaled problem is the certified vector divided by `t` -/
theorem pinvApply_scale_pinv (J : Mat α) (m n : Nat) (hJ : MatWF J m n) (d : Vec α)
    (hd : d.length = m) (t : α) (ht : 0 < t) (v v' : Vec α)
    (h : pinvApply (gram J) d = some v)
    (h' : pinvApply (gram (J.map (smul t))) (d.map (t * ·)) = some v') : v = smul t v' := by
  have hS := gram_symmSquare J m n hJ
  obtain ⟨u, hul, hvu, hr⟩ := pinvApply_spec_pinv _ d v h
  obtain ⟨u', hul', hvu', hr'⟩ := pinvApply_spec_pinv _ _ v' h'
  rw [List.length_map, hd] at hul' hr'
  rw [hd] at hul hr
  rw [Homog.gram_map_smul] at hvu' hr'
  rw [Homog.matVec_map_smul] at hvu'
  have e1 : smul t v' = matVec (gram J) (smul (t * t * t) u') := by
    rw [hvu', Homog.matVec_smul, Homog.smul_smul']
    congr 1; ring
  have hdm : d.map (t * ·) = smul t d := rfl
  rw [hdm, Homog.matVec_map_smul, Homog.matVec_map_smul] at hr'
  have e2 : vsub (smul (t * t) (matVec (gram J) v')) (smul t d) =
      smul t (vsub (matVec (gram J) (smul t v')) d) := by
    rw [Eqv.smul_vsub, Homog.matVec_smul, Homog.smul_smul']
  have ht3 : t * t * t ≠ 0 := by positivity
  rw [e2, Homog.matVec_smul, Homog.smul_smul', ← Homog.smul_zeros' (t * t * t) m] at hr'
  have hr'' := Homog.smul_injective' _ ht3 _ _ hr'
  rw [e1] at hr'' ⊢
  rw [hvu] at hr ⊢
  exact pinv_cert_unique_list (gram J) m hS d u (smul (t * t * t) u') hd hul
    (by rw [smul_length]; exact hul') hr hr''

theorem imtlgP_scale (J : Mat α) (m n : Nat) (hJ : MatWF J m n) (d : Vec α) (hd : d.length = m)
    (guard t : α) (ht : 0 < t) (hg : 0 ≤ guard) (w w' : Vec α)
    (h : imtlgWeightsP J d guard = some w)
    (h' : imtlgWeightsP (J.map (smul t)) (d.map (t * ·)) guard = some w') : w' = w := by
  obtain ⟨v, hpv, hw⟩ := imtlgP_spec_pinv J d guard w h
  obtain ⟨v', hpv', hw'⟩ := imtlgP_spec_pinv _ _ guard w' h'
  rw [List.length_map] at hw'
  have hvv := pinvApply_scale_pinv J m n hJ d hd t ht v v' hpv hpv'
  have hsum : v.sum = t * v'.sum := by rw [hvv]; exact Homog.list_sum_map_mul t v'
  have habs : (v.map absV).sum = t * (v'.map absV).sum := by
    rw [hvv]; exact Homog.sum_absV_map_mul t ht v'
  rw [hw, hw', hsum, habs, Homog.absV_mul t ht]
  have hgg : t * absV v'.sum ≤ guard * (t * (v'.map absV).sum) ↔
      absV v'.sum ≤ guard * (v'.map absV).sum := by
    rw [show guard * (t * (v'.map absV).sum) = t * (guard * (v'.map absV).sum) by ring]
    exact mul_le_mul_iff_right₀ ht
  simp only [hgg]
  split_ifs
  · rfl
  · rw [hvv, smul, List.map_map]
    apply List.map_congr_left
    intro x _
    exact (mul_div_mul_left _ _ ht.ne').symm

end imtlg_pinv

/-! ### ConFIG at any rank -/
section config_pinv
variable {α : Type} [Field α] [LinearOrder α] [IsStrictOrderedRing α]

/-- the unit rows of `configVecP` (a zero row norm gives the zero row) -/
def unitRowsP_pinv (J : Mat α) (d : Vec α) : Mat α :=
  List.zipWith (fun row di => if di = 0 then row.map (fun _ => 0) else row.map (· / di)) J d

theorem unitRowsP_matWF_pinv (J : Mat α) (m n : Nat) (hJ : MatWF J m n) (d : Vec α)
    (hd : d.length = m) : MatWF (unitRowsP_pinv J d) m n := by
  refine ⟨by simp [unitRowsP_pinv, hJ.1, hd], ?_⟩
  intro row hrow
  obtain ⟨i, hi, rfl⟩ := List.mem_iff_getElem.mp hrow
  simp only [unitRowsP_pinv, List.getElem_zipWith]
  split_ifs <;> rw [List.length_map] <;> exact hJ.2 _ (List.getElem_mem _)

theorem unitRowsP_permV_pinv [Inhabited α] (J : Mat α) (m n : Nat) (hJ : MatWF J m n) (d : Vec α)
    (hd : d.length = m) (p : List Nat) (hp : p.Perm (List.range m)) :
    unitRowsP_pinv (permV p J) (permV p d) = permV p (unitRowsP_pinv J d) := by
  simp only [unitRowsP_pinv, permV]
  rw [Eqv.zipWith_map_self]
  apply List.map_congr_left
  intro i hi
  have hi' : i < m := Eqv.perm_lt hp i hi
  have hJ1 := hJ.1
  rw [Eqv.getD_eq_getElem' J _ i (by omega), Eqv.getD_eq_getElem' d _ i (by omega),
    Eqv.getD_eq_getElem' _ _ i (by simp [hJ.1, hd, hi']), List.getElem_zipWith]

theorem configVecP_cases_pinv (J : Mat α) (d w : Vec α) (n : Nat) (x : Vec α)
    (h : configVecP J d w n = some x) :
    ∃ y : Vec α, pinvApply (gram (unitRowsP_pinv J d)) w = some y ∧
      ((dot (combine n (unitRowsP_pinv J d) y) (combine n (unitRowsP_pinv J d) y) = 0 ∧
          x = zeros n) ∨
       (dot (combine n (unitRowsP_pinv J d) y) (combine n (unitRowsP_pinv J d) y) ≠ 0 ∧
        x = smul ((J.map fun row => dot row (combine n (unitRowsP_pinv J d) y)).sum /
              dot (combine n (unitRowsP_pinv J d) y) (combine n (unitRowsP_pinv J d) y))
            (combine n (unitRowsP_pinv J d) y))) := by
  unfold configVecP at h
  simp only at h
  change (match pinvApply (gram (unitRowsP_pinv J d)) w with
    | none => none
    | some y =>
      if dot (combine n (unitRowsP_pinv J d) y) (combine n (unitRowsP_pinv J d) y) = 0 then
        some (zeros n)
      else some (smul ((J.map fun row => dot row (combine n (unitRowsP_pinv J d) y)).sum /
              dot (combine n (unitRowsP_pinv J d) y) (combine n (unitRowsP_pinv J d) y))
            (combine n (unitRowsP_pinv J d) y))) = some x at h
  cases hp : pinvApply (gram (unitRowsP_pinv J d)) w with
  | none => rw [hp] at h; exact absurd h (by simp)
  | some y =>
    rw [hp] at h
    simp only at h
    refine ⟨y, rfl, ?_⟩
    split_ifs at h with h2
    · exact Or.inl ⟨h2, (Option.some.inj h).symm⟩
    · exact Or.inr ⟨h2, (Option.some.inj h).symm⟩

theorem configP_perm [Inhabited α] (J : Mat α) (m n : Nat) (hJ : MatWF J m n) (d w : Vec α)
    (hd : d.length = m) (hw : w.length = m) (p : List Nat) (hp : p.Perm (List.range m))
    (x x' : Vec α) (h : configVecP J d w n = some x)
    (h' : configVecP (permV p J) (permV p d) (permV p w) n = some x') : x' = x := by
  have hpl := Eqv.perm_length hp
  have hU := unitRowsP_matWF_pinv J m n hJ d hd
  obtain ⟨y, hy, hx⟩ := configVecP_cases_pinv J d w n x h
  obtain ⟨y', hy', hx'⟩ := configVecP_cases_pinv _ _ _ n x' h'
  rw [unitRowsP_permV_pinv J m n hJ d hd p hp] at hy' hx'
  have hyl : y.length = m := by rw [pinvApply_length_pinv _ _ _ hy, gram_length, hU.1]
  have hyy := pinvApply_perm_pinv _ m n hU w hw p hp y y' hy hy'
  subst hyy
  rw [Eqv.combine_row_perm' _ m n hU y hyl p hp] at hx'
  have hlen : ((permV p J).map fun row => dot row (combine n (unitRowsP_pinv J d) y)).sum =
      (J.map fun row => dot row (combine n (unitRowsP_pinv J d) y)).sum :=
    ((Eqv.permV_perm p J (by rw [hJ.1]; exact hp)).map _).sum_eq
  rw [hlen] at hx'
  rcases hx with ⟨hb, rfl⟩ | ⟨hb, rfl⟩ <;> rcases hx' with ⟨hb', rfl⟩ | ⟨hb', rfl⟩
  · rfl
  · exact absurd hb hb'
  · exact absurd hb' hb
  · rfl

end config_pinv

end Tjd.Agg
