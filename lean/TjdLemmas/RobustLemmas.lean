/- helper lemmas for TjdProps/C16.lean -/
import Mathlib.Algebra.Order.Field.Basic
import Mathlib.Data.List.Perm.Basic
import Mathlib.Algebra.BigOperators.Group.List.Basic
import Mathlib.Tactic.Linarith
import Mathlib.Tactic.Ring
import TjdModel.Agg.Spec2
namespace Tjd.Agg
open Tjd

set_option linter.unusedSectionVars false
set_option linter.unusedSimpArgs false

variable {α : Type} [Field α] [LinearOrder α] [IsStrictOrderedRing α]

/-! ### sorting -/

theorem sortAsc_perm (xs : List α) : (sortAsc xs).Perm xs := List.mergeSort_perm _ _

theorem sortAsc_length (xs : List α) : (sortAsc xs).length = xs.length :=
  (sortAsc_perm xs).length_eq

theorem sortAsc_sorted (xs : List α) : (sortAsc xs).Pairwise (· ≤ ·) := by
  have h := List.pairwise_mergeSort (le := fun a b : α => decide (a ≤ b))
    (by intro a b c h1 h2; simp only [decide_eq_true_eq] at *; exact le_trans h1 h2)
    (by intro a b; simp only [Bool.or_eq_true, decide_eq_true_eq]; exact le_total a b) xs
  simpa [sortAsc] using h

theorem eq_of_sorted_perm {l₁ l₂ : List α} (h₁ : l₁.Pairwise (· ≤ ·)) (h₂ : l₂.Pairwise (· ≤ ·))
    (h : l₁.Perm l₂) : l₁ = l₂ := by
  have h₁' : l₁.Pairwise (fun a b => decide (a ≤ b) = true) := by simpa using h₁
  have h₂' : l₂.Pairwise (fun a b => decide (a ≤ b) = true) := by simpa using h₂
  exact List.Perm.eq_of_pairwise (le := fun a b : α => decide (a ≤ b))
    (by intro a b _ _ h1 h2; simp only [decide_eq_true_eq] at *; exact le_antisymm h1 h2) h₁' h₂' h

theorem sortAsc_eq_of_sorted_perm {l xs : List α} (hl : l.Pairwise (· ≤ ·)) (h : l.Perm xs) :
    sortAsc xs = l :=
  eq_of_sorted_perm (sortAsc_sorted xs) hl ((sortAsc_perm xs).trans h.symm)

theorem sortAsc_eq_of_perm {c₁ c₂ : List α} (h : c₁.Perm c₂) : sortAsc c₁ = sortAsc c₂ :=
  sortAsc_eq_of_sorted_perm (sortAsc_sorted c₂) ((sortAsc_perm c₂).trans h.symm)

/-! ### trimmed mean -/

theorem trimmedMeanCol_eq (b : Nat) (column : List α) :
    trimmedMeanCol b column =
      (((sortAsc column).drop b).take (column.length - 2 * b)).sum /
        ((column.length - 2 * b : Nat) : α) := rfl

theorem trimmedMeanCol_zero' (column : List α) :
    trimmedMeanCol 0 column = column.sum / (column.length : α) := by
  rw [trimmedMeanCol_eq]
  have : ((sortAsc column).drop 0).take (column.length - 2 * 0) = sortAsc column := by
    simp [List.take_of_length_le, sortAsc_length]
  rw [this, (sortAsc_perm column).sum_eq]
  simp

theorem trimmedMeanCol_perm' (b : Nat) {c₁ c₂ : List α} (h : c₁.Perm c₂) :
    trimmedMeanCol b c₁ = trimmedMeanCol b c₂ := by
  rw [trimmedMeanCol_eq, trimmedMeanCol_eq, sortAsc_eq_of_perm h, h.length_eq]

/-- in a sorted list with at most `b` entries `< lo`, everything after the first `b` is `≥ lo` -/
theorem sorted_drop_ge {lo : α} : ∀ (s : List α) (b : Nat), s.Pairwise (· ≤ ·) →
    (s.filter (· < lo)).length ≤ b → ∀ x ∈ s.drop b, lo ≤ x
  | [], _, _, _, x, hx => by simp at hx
  | y :: t, b, hs, hc, x, hx => by
    rw [List.pairwise_cons] at hs
    by_cases hy : y < lo
    · cases b with
      | zero => simp [List.filter_cons, hy] at hc
      | succ b =>
        rw [List.drop_succ_cons] at hx
        refine sorted_drop_ge t b hs.2 ?_ x hx
        simp only [List.filter_cons, hy, decide_true, if_true, List.length_cons] at hc
        omega
    · have hy' : lo ≤ y := not_lt.mp hy
      have hx' : x ∈ y :: t := List.mem_of_mem_drop hx
      rcases List.mem_cons.mp hx' with rfl | hxt
      · exact hy'
      · exact le_trans hy' (hs.1 x hxt)

/-- in a sorted list with at most `b` entries `> hi`, everything but the last `b` is `≤ hi` -/
theorem sorted_take_le {hi : α} : ∀ (s : List α) (b : Nat), s.Pairwise (· ≤ ·) →
    (s.filter (hi < ·)).length ≤ b → ∀ x ∈ s.take (s.length - b), x ≤ hi
  | [], _, _, _, x, hx => by simp at hx
  | y :: t, b, hs, hc, x, hx => by
    rw [List.pairwise_cons] at hs
    by_cases hb : t.length + 1 ≤ b
    · have : (y :: t).length - b = 0 := by simp only [List.length_cons]; omega
      rw [this] at hx; simp at hx
    · have hlen : (y :: t).length - b = (t.length - b) + 1 := by
        simp only [List.length_cons]; omega
      rw [hlen, List.take_succ_cons] at hx
      have hy : y ≤ hi := by
        by_contra hcon
        have hcon : hi < y := not_le.mp hcon
        have hall : (y :: t).filter (hi < ·) = y :: t := by
          rw [List.filter_eq_self]
          intro a ha
          rcases List.mem_cons.mp ha with rfl | hat
          · simpa using hcon
          · simpa using lt_of_lt_of_le hcon (hs.1 a hat)
        rw [hall] at hc
        simp only [List.length_cons] at hc
        omega
      rcases List.mem_cons.mp hx with rfl | hxt
      · exact hy
      · refine sorted_take_le t b hs.2 ?_ x hxt
        have hny : ¬ hi < y := not_lt.mpr hy
        simpa [List.filter_cons, hny] using hc

theorem sum_ge_of_forall_ge {lo : α} : ∀ (l : List α), (∀ x ∈ l, lo ≤ x) →
    lo * (l.length : α) ≤ l.sum
  | [], _ => by simp
  | y :: t, h => by
    have h1 := h y (List.mem_cons_self)
    have h2 := sum_ge_of_forall_ge t (fun x hx => h x (List.mem_cons_of_mem _ hx))
    simp only [List.length_cons, List.sum_cons, Nat.cast_add, Nat.cast_one]
    linarith

theorem sum_le_of_forall_le {hi : α} : ∀ (l : List α), (∀ x ∈ l, x ≤ hi) →
    l.sum ≤ hi * (l.length : α)
  | [], _ => by simp
  | y :: t, h => by
    have h1 := h y (List.mem_cons_self)
    have h2 := sum_le_of_forall_le t (fun x hx => h x (List.mem_cons_of_mem _ hx))
    simp only [List.length_cons, List.sum_cons, Nat.cast_add, Nat.cast_one]
    linarith

/-- entries `< lo` can only be at corrupted positions -/
theorem filter_lt_le_bad {lo hi : α} : ∀ (column : List α) (good : List Bool),
    good.length = column.length →
    (∀ i, i < column.length → good.getD i false = true →
        lo ≤ column.getD i 0 ∧ column.getD i 0 ≤ hi) →
    (column.filter (· < lo)).length ≤ (good.filter (· = false)).length ∧
    (column.filter (hi < ·)).length ≤ (good.filter (· = false)).length
  | [], _, _, _ => by simp
  | y :: t, [], hlen, _ => by simp at hlen
  | y :: t, g :: gs, hlen, h => by
    have hlen' : gs.length = t.length := by simpa using hlen
    have ih := filter_lt_le_bad (lo := lo) (hi := hi) t gs hlen' (by
      intro i hi' hg
      have := h (i + 1) (by simp only [List.length_cons]; omega) (by simpa using hg)
      simpa using this)
    have h0 := h 0 (by simp)
    simp only [List.getD_cons_zero] at h0
    cases g with
    | true =>
      have := h0 rfl
      have h1 : ¬ y < lo := not_lt.mpr this.1
      have h2 : ¬ hi < y := not_lt.mpr this.2
      simpa [List.filter_cons, h1, h2] using ih
    | false =>
      constructor
      · by_cases h1 : y < lo <;> simp [List.filter_cons, h1] at ih ⊢ <;> omega
      · by_cases h2 : hi < y <;> simp [List.filter_cons, h2] at ih ⊢ <;> omega

theorem trimmedMeanCol_robust' (b : Nat) (column : List α) (good : List Bool) (lo hi : α)
    (hlen : good.length = column.length) (hm : 2 * b + 1 ≤ column.length)
    (hbad : (good.filter (· = false)).length ≤ b)
    (hrange : ∀ i, i < column.length → good.getD i false = true →
        lo ≤ column.getD i 0 ∧ column.getD i 0 ≤ hi) :
    lo ≤ trimmedMeanCol b column ∧ trimmedMeanCol b column ≤ hi := by
  obtain ⟨hclo, hchi⟩ := filter_lt_le_bad (lo := lo) (hi := hi) column good hlen hrange
  have hs := sortAsc_sorted column
  have hp := sortAsc_perm column
  have hslo : ((sortAsc column).filter (· < lo)).length ≤ b := by
    rw [(hp.filter _).length_eq]; omega
  have hshi : ((sortAsc column).filter (hi < ·)).length ≤ b := by
    rw [(hp.filter _).length_eq]; omega
  have hsl := sortAsc_length column
  have hkept_lo : ∀ x ∈ ((sortAsc column).drop b).take (column.length - 2 * b), lo ≤ x :=
    fun x hx => sorted_drop_ge _ b hs hslo x (List.mem_of_mem_take hx)
  have hkept_hi : ∀ x ∈ ((sortAsc column).drop b).take (column.length - 2 * b), x ≤ hi := by
    intro x hx
    rw [List.take_drop] at hx
    have hx := List.mem_of_mem_drop hx
    have e : b + (column.length - 2 * b) = (sortAsc column).length - b := by omega
    rw [e] at hx
    exact sorted_take_le _ b hs hshi x hx
  have hklen : (((sortAsc column).drop b).take (column.length - 2 * b)).length
      = column.length - 2 * b := by
    simp only [List.length_take, List.length_drop, hsl]; omega
  have hpos : (0 : α) < ((column.length - 2 * b : Nat) : α) := by
    apply Nat.cast_pos.mpr; omega
  have h1 := sum_ge_of_forall_ge _ hkept_lo
  have h2 := sum_le_of_forall_le _ hkept_hi
  rw [hklen] at h1 h2
  rw [trimmedMeanCol_eq]
  exact ⟨(le_div_iff₀ hpos).mpr h1, (div_le_iff₀ hpos).mpr h2⟩

/-! ### matrix version -/

theorem trimmedMean_getD [Inhabited α] (b n : Nat) (J : Mat α) (c : Nat) (hc : c < n) :
    (trimmedMean b n J).getD c 0 = trimmedMeanCol b (col J c) := by
  simp [trimmedMean, List.getD_eq_getElem?_getD, hc]

theorem col_length [Inhabited α] (J : Mat α) (c : Nat) : (col J c).length = J.length := by
  simp [col]

theorem col_getD [Inhabited α] (J : Mat α) (n c : Nat) (hJ : ∀ row ∈ J, row.length = n)
    (hc : c < n) (i : Nat) (hi : i < J.length) :
    (col J c).getD i 0 = (J.getD i []).getD c 0 := by
  have hrow : c < (J[i]).length := by rw [hJ _ (List.getElem_mem hi)]; exact hc
  simp [col, List.getD_eq_getElem?_getD, hi, hrow]

theorem trimmedMean_robust' [Inhabited α] (b m n : Nat) (J : Mat α) (hJ : MatWF J m n)
    (good : List Bool) (hlen : good.length = m) (hm : 2 * b + 1 ≤ m)
    (hbad : (good.filter (· = false)).length ≤ b) (c : Nat) (hc : c < n) (lo hi : α)
    (hrange : ∀ i, i < m → good.getD i false = true →
        lo ≤ (J.getD i []).getD c 0 ∧ (J.getD i []).getD c 0 ≤ hi) :
    lo ≤ (trimmedMean b n J).getD c 0 ∧ (trimmedMean b n J).getD c 0 ≤ hi := by
  rw [trimmedMean_getD b n J c hc]
  obtain ⟨hJ1, hJ2⟩ := hJ
  apply trimmedMeanCol_robust' b (col J c) good lo hi
  · rw [col_length, hJ1, hlen]
  · rw [col_length, hJ1]; exact hm
  · exact hbad
  · intro i hi' hg
    rw [col_length] at hi'
    rw [col_getD J n c hJ2 hc i hi']
    exact hrange i (hJ1 ▸ hi') hg

/-! ### Krum -/

/-- the sorted (score, index) list used by `lowestK` -/
def krumSorted (scores : Vec α) : List (α × Nat) :=
  scores.zipIdx.mergeSort (fun a b => decide (a.1 ≤ b.1))

theorem lowestK_fst (scores : Vec α) (k : Nat) :
    (lowestK scores k).1 = ((krumSorted scores).take k).map (·.2) := rfl

theorem krumWeights_fst (D : Mat α) (f k : Nat) :
    (krumWeights D f k).1 = (List.range D.length).map fun i =>
      (if (lowestK (krumScores D f) k).1.contains i then (1 : α) else 0) / ((k : Nat) : α) := rfl

theorem krumSorted_perm (scores : Vec α) : (krumSorted scores).Perm scores.zipIdx :=
  List.mergeSort_perm _ _

theorem krumSorted_sorted (scores : Vec α) :
    (krumSorted scores).Pairwise (fun a b => a.1 ≤ b.1) := by
  have h := List.pairwise_mergeSort (le := fun a b : α × Nat => decide (a.1 ≤ b.1))
    (by intro a b c h1 h2; simp only [decide_eq_true_eq] at *; exact le_trans h1 h2)
    (by intro a b; simp only [Bool.or_eq_true, decide_eq_true_eq]; exact le_total a.1 b.1)
    scores.zipIdx
  simpa [krumSorted] using h

theorem krumScores_length (D : Mat α) (f : Nat) : (krumScores D f).length = D.length := by
  simp [krumScores]

theorem lowestK_nodup (scores : Vec α) (k : Nat) : (lowestK scores k).1.Nodup := by
  rw [lowestK_fst]
  have h1 : ((krumSorted scores).map (·.2)).Nodup := by
    have hp := (krumSorted_perm scores).map (·.2)
    rw [List.zipIdx_map_snd] at hp
    exact hp.nodup_iff.mpr List.nodup_range'
  exact List.Nodup.sublist ((List.take_sublist k _).map _) h1

theorem lowestK_length (scores : Vec α) (k : Nat) (hk : k ≤ scores.length) :
    (lowestK scores k).1.length = k := by
  rw [lowestK_fst, List.length_map, List.length_take, (krumSorted_perm scores).length_eq,
    List.length_zipIdx]
  omega

theorem lowestK_lt (scores : Vec α) (k : Nat) : ∀ i ∈ (lowestK scores k).1, i < scores.length := by
  intro i hi
  rw [lowestK_fst, List.mem_map] at hi
  obtain ⟨p, hp, rfl⟩ := hi
  have hp' : p ∈ scores.zipIdx := (krumSorted_perm scores).subset (List.mem_of_mem_take hp)
  simpa using List.snd_lt_of_mem_zipIdx hp'

theorem krum_average' (D : Mat α) (f k : Nat) (hkm : k ≤ D.length) :
    ∃ sel : List Nat, sel.Nodup ∧ sel.length = k ∧ (∀ i ∈ sel, i < D.length) ∧
      (krumWeights D f k).1 =
        (List.range D.length).map fun i => if i ∈ sel then (1 : α) / (k : α) else 0 := by
  refine ⟨(lowestK (krumScores D f) k).1, lowestK_nodup _ _, ?_, ?_, ?_⟩
  · exact lowestK_length _ _ (by rw [krumScores_length]; exact hkm)
  · intro i hi
    have := lowestK_lt _ _ i hi
    rwa [krumScores_length] at this
  · rw [krumWeights_fst]
    apply List.map_congr_left
    intro i _
    by_cases h : i ∈ (lowestK (krumScores D f) k).1 <;> simp [h]

theorem krumWeights_getD (D : Mat α) (f k : Nat) (i : Nat) (hi : i < D.length) :
    (krumWeights D f k).1.getD i 0 =
      if i ∈ (lowestK (krumScores D f) k).1 then (1 : α) / (k : α) else 0 := by
  rw [krumWeights_fst]
  by_cases h : i ∈ (lowestK (krumScores D f) k).1 <;>
    simp [List.getD_eq_getElem?_getD, hi, h]

theorem lowestK_le (scores : Vec α) (k : Nat) (i j : Nat) (hj : j < scores.length)
    (hi : i ∈ (lowestK scores k).1) (hnj : j ∉ (lowestK scores k).1) :
    scores.getD i 0 ≤ scores.getD j 0 := by
  rw [lowestK_fst] at hi hnj
  rw [List.mem_map] at hi
  obtain ⟨p, hp, rfl⟩ := hi
  have hpz : p ∈ scores.zipIdx := (krumSorted_perm scores).subset (List.mem_of_mem_take hp)
  rw [List.mem_zipIdx_iff_getElem?] at hpz
  have hq : (scores[j], j) ∈ krumSorted scores := by
    apply (krumSorted_perm scores).symm.subset
    rw [List.mk_mem_zipIdx_iff_getElem?]
    exact List.getElem?_eq_getElem hj
  rw [← List.take_append_drop k (krumSorted scores), List.mem_append] at hq
  have hqd : (scores[j], j) ∈ (krumSorted scores).drop k := by
    rcases hq with hq | hq
    · exact absurd (List.mem_map.mpr ⟨_, hq, rfl⟩) hnj
    · exact hq
  have hs := krumSorted_sorted scores
  rw [← List.take_append_drop k (krumSorted scores), List.pairwise_append] at hs
  have := hs.2.2 p hp _ hqd
  simp only at this
  rw [List.getD_eq_getElem?_getD, List.getD_eq_getElem?_getD, hpz, List.getElem?_eq_getElem hj]
  simpa using this

theorem krum_selects' (D : Mat α) (f k : Nat) (hk : 1 ≤ k)
    (i j : Nat) (hi : i < D.length) (hj : j < D.length)
    (hsel : (krumWeights D f k).1.getD i 0 ≠ 0) (hnot : (krumWeights D f k).1.getD j 0 = 0) :
    (krumScores D f).getD i 0 ≤ (krumScores D f).getD j 0 := by
  rw [krumWeights_getD D f k i hi] at hsel
  rw [krumWeights_getD D f k j hj] at hnot
  have hk0 : ((k : Nat) : α) ≠ 0 := Nat.cast_ne_zero.mpr (by omega)
  apply lowestK_le _ k i j (by rw [krumScores_length]; exact hj)
  · by_contra h; simp [h] at hsel
  · intro h; simp [h, hk0] at hnot

theorem sortAsc_zero_cons (row : List α) (i : Nat) (hi : i < row.length)
    (hnn : ∀ x ∈ row, 0 ≤ x) (h0 : row[i] = 0) :
    sortAsc row = 0 :: sortAsc (row.eraseIdx i) := by
  apply sortAsc_eq_of_sorted_perm
  · rw [List.pairwise_cons]
    refine ⟨?_, sortAsc_sorted _⟩
    intro x hx
    have hx' : x ∈ row.eraseIdx i := (sortAsc_perm _).subset hx
    exact hnn x ((List.eraseIdx_sublist row i).subset hx')
  · have := List.getElem_cons_eraseIdx_perm hi
    rw [h0] at this
    exact ((sortAsc_perm _).cons 0).trans this

theorem krumScores_getD (D : Mat α) (f i : Nat) (hi : i < D.length) :
    (krumScores D f).getD i 0 =
      ((smallest (D.length - f - 2 + 1) (D.getD i [])).drop 1).sum := by
  simp [krumScores, List.getD_eq_getElem?_getD, hi]

theorem krum_neighbourhood' (D : Mat α) (f : Nat) (i : Nat) (hi : i < D.length)
    (hrow : (D.getD i []).length = D.length) (hnn : ∀ x ∈ D.getD i [], 0 ≤ x)
    (hdiag : (D.getD i []).getD i 0 = 0) :
    (krumScores D f).getD i 0 =
      (smallest (D.length - f - 2) ((D.getD i []).eraseIdx i)).sum := by
  rw [krumScores_getD D f i hi]
  generalize D.getD i [] = row at *
  have hi' : i < row.length := by rw [hrow]; exact hi
  have h0 : row[i] = 0 := by
    rw [List.getD_eq_getElem?_getD, List.getElem?_eq_getElem hi'] at hdiag
    simpa using hdiag
  simp only [smallest]
  rw [sortAsc_zero_cons row i hi' hnn h0, List.take_succ_cons, List.drop_succ_cons, List.drop_zero]

end Tjd.Agg
