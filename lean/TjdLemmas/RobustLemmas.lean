/- helper lemmas for TjdProps/C16.lean -/
import Mathlib.Algebra.Order.Field.Basic
import TjdModel.Agg.Spec2
namespace Tjd.Agg

end Tjd.Agg
