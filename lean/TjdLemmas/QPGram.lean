/- the regularised normalised Gramian as a matrix (helper for TjdProps/C03.lean) -/
import TjdLemmas.QPKkt
namespace Tjd.Agg
open Tjd Matrix
set_option linter.unusedSectionVars false
set_option linter.unusedSimpArgs false
variable {α : Type} [Field α] [LinearOrder α] [IsStrictOrderedRing α]

theorem regNormGram_getD (J : Mat α) (s normEps regEps : α) (a b : Nat) (ha : a < J.length)
    (hb : b < J.length) :
    ((regNormGram J s normEps regEps).getD a []).getD b 0 =
      (if s < normEps then 0 else dot (J.getD a []) (J.getD b []) / (s * s)) +
        (if a = b then regEps else 0) := by
  simp only [regNormGram, madd, msmul, ident, gram, zeros]
  by_cases hs : s < normEps
  · simp only [hs, if_true]
    simp [vadd, smul, List.getD_eq_getElem?_getD, List.getElem?_zipWith, List.getElem?_map, List.getElem?_range, ha, hb, List.getElem?_replicate]
  · simp only [hs, if_false]
    simp [vadd, smul, List.getD_eq_getElem?_getD, List.getElem?_zipWith, List.getElem?_map, List.getElem?_range, ha, hb, List.getElem?_replicate]

theorem getD_mem {β : Type} (l : List β) (d : β) (i : Nat) (h : i < l.length) : l.getD i d ∈ l := by
  rw [List.getD_eq_getElem?_getD, List.getElem?_eq_getElem h]
  simp

theorem dot_comm' (x y : Vec α) : dot x y = dot y x := by
  rw [dot_eq_left x.length x y le_rfl, dot_eq_right x.length y x le_rfl, dotProduct_comm]

def gramCoef (s normEps : α) : α := if s < normEps then 0 else (s * s)⁻¹

theorem gramCoef_nonneg (s normEps : α) : 0 ≤ gramCoef s normEps := by
  unfold gramCoef
  split_ifs
  · exact le_rfl
  · exact inv_nonneg.mpr (mul_self_nonneg s)

theorem dot_rows (J : Mat α) (m n : Nat) (hJ : MatWF J m n) (i j : Fin m) :
    dot (J.getD i []) (J.getD j []) = (toMat m n J * (toMat m n J)ᵀ) i j := by
  rw [dot_eq_sum_left n _ _ (hJ.2 _ (getD_mem J [] i (by rw [hJ.1]; exact i.2))).le]
  rfl

theorem toMat_regNormGram (J : Mat α) (m n : Nat) (hJ : MatWF J m n) (s normEps regEps : α) :
    toMat m m (regNormGram J s normEps regEps) =
      gramCoef s normEps • (toMat m n J * (toMat m n J)ᵀ) + regEps • (1 : Matrix (Fin m) (Fin m) α) := by
  ext i j
  rw [toMat_apply, regNormGram_getD J s normEps regEps i j (by rw [hJ.1]; exact i.2)
    (by rw [hJ.1]; exact j.2), dot_rows J m n hJ]
  simp only [Matrix.add_apply, Matrix.smul_apply, Matrix.one_apply, smul_eq_mul, gramCoef,
    Fin.ext_iff]
  split_ifs <;> simp [div_eq_mul_inv, mul_comm]

theorem qfF_regNormGram {m n : Nat} (c e : α) (B : Matrix (Fin m) (Fin n) α) (f : Fin m → α) :
    f ⬝ᵥ (c • (B * Bᵀ) + e • (1 : Matrix (Fin m) (Fin m) α)) *ᵥ f =
      c * ((f ᵥ* B) ⬝ᵥ (f ᵥ* B)) + e * (f ⬝ᵥ f) := by
  rw [add_mulVec, dotProduct_add, smul_mulVec, smul_mulVec, one_mulVec, dotProduct_smul,
    dotProduct_smul, ← mulVec_mulVec, dotProduct_mulVec, mulVec_transpose]
  simp

theorem dotProduct_self_nonneg' {m : Nat} (f : Fin m → α) : 0 ≤ f ⬝ᵥ f :=
  Finset.sum_nonneg fun i _ => mul_self_nonneg (f i)

theorem dotProduct_self_pos' {m : Nat} (f : Fin m → α) (hf : f ≠ 0) : 0 < f ⬝ᵥ f := by
  obtain ⟨i, hi⟩ := Function.ne_iff.mp hf
  exact Finset.sum_pos' (fun i _ => mul_self_nonneg (f i)) ⟨i, Finset.mem_univ i, mul_self_pos.mpr hi⟩

theorem regNormGram_length (J : Mat α) (s normEps regEps : α) :
    (regNormGram J s normEps regEps).length = J.length := by
  simp only [regNormGram, madd, msmul, ident, gram, zeros]
  split_ifs <;> simp

theorem regNormGram_row_length (J : Mat α) (s normEps regEps : α) :
    ∀ row ∈ regNormGram J s normEps regEps, row.length = J.length := by
  intro row hrow
  obtain ⟨i, hi, rfl⟩ := List.mem_iff_getElem.mp hrow
  simp only [regNormGram, madd, msmul, ident, gram, zeros]
  split_ifs <;> simp [vadd, smul]

theorem regNormGram_symmSquare (J : Mat α) (m n : Nat) (hJ : MatWF J m n) (s normEps regEps : α) :
    SymmSquare (regNormGram J s normEps regEps) m := by
  refine ⟨by rw [regNormGram_length, hJ.1], fun row hrow => by
    rw [regNormGram_row_length J s normEps regEps row hrow, hJ.1], fun i j hi hj => ?_⟩
  have hm := hJ.1
  rw [regNormGram_getD J s normEps regEps i j (by omega) (by omega),
    regNormGram_getD J s normEps regEps j i (by omega) (by omega), dot_comm']
  simp only [eq_comm (a := i)]

theorem regNormGram_pd (J : Mat α) (m n : Nat) (hJ : MatWF J m n) (s normEps regEps : α)
    (hre : 0 < regEps) : PosDef (regNormGram J s normEps regEps) m := by
  intro v hv hne
  rw [qf_eq m _ v hv.le, toMat_regNormGram J m n hJ, qfF_regNormGram]
  have hf : toFn m v ≠ 0 := by
    obtain ⟨x, hx, hx0⟩ := hne
    obtain ⟨i, hi, rfl⟩ := List.mem_iff_getElem.mp hx
    intro h0
    apply hx0
    have := congrFun h0 ⟨i, by omega⟩
    simpa [toFn, List.getD_eq_getElem?_getD, List.getElem?_eq_getElem hi] using this
  have h1 := mul_nonneg (gramCoef_nonneg s normEps) (dotProduct_self_nonneg' (toFn m v ᵥ* toMat m n J))
  have h2 := mul_pos hre (dotProduct_self_pos' _ hf)
  linarith

end Tjd.Agg
