/-
  Helper lemmas for TjdProps/C04b.lean: composition of the autojac model (`backward`, C01) with the UPGrad / DualProj
  aggregator models (`upgradAgg`, `dualprojAgg`): non-conflict (QPLemmas) + totality of the certified QP search
  (QPComplete).
-/
import Mathlib.Algebra.Order.Field.Basic
import TjdModel.Agg.AsAggregator
import TjdProps.C01
import TjdLemmas.QPLemmas
import TjdLemmas.QPComplete
namespace Tjd.Agg
open Tjd Tjd.Autojac Tjd.Props.C01

variable {α : Type} [Field α] [LinearOrder α] [IsStrictOrderedRing α]

/-- `combine n J w` has length `n` when every row of `J` has (no hypothesis on `w`) -/
theorem combine_length_e2e (n : Nat) (J : Mat α) (w : Vec α) (hJ : ∀ row ∈ J, row.length = n) :
    (combine n J w).length = n := by
  unfold combine
  apply Tjd.Agg.vsum_length
  intro x hx
  obtain ⟨i, hi, rfl⟩ := List.mem_iff_getElem.mp hx
  rw [List.getElem_zipWith]
  simp only [smul, List.length_map]
  exact hJ _ (List.getElem_mem _)

omit [LinearOrder α] [IsStrictOrderedRing α] in
theorem fullJac_matWF_e2e (E : Engine α) (tensors inputs : List Key) (hwf : E.WF) :
    MatWF (fullJac E tensors inputs) ((tensors.map E.numel).sum) ((inputs.map E.numel).sum) :=
  ⟨fullJac_length E tensors inputs, fullJac_row_length E hwf tensors inputs⟩

omit [LinearOrder α] [IsStrictOrderedRing α] in
theorem fullJac_ncols_e2e (E : Engine α) (tensors inputs : List Key) (hwf : E.WF)
    (hrows : 0 < (tensors.map E.numel).sum) :
    ncols (fullJac E tensors inputs) = (inputs.map E.numel).sum :=
  ncols_of_rows _ _ (fullJac_ne_nil E tensors inputs hrows) (fullJac_row_length E hwf tensors inputs)

/-- value of the UPGrad aggregator on the true Jacobian -/
theorem upgradAgg_fullJac_e2e (E : Engine α) (tensors inputs : List Key) (sv : Mat α → α)
    (normEps regEps : α) (u : Vec α) (hwf : E.WF) (hrows : 0 < (tensors.map E.numel).sum)
    (hu : u.length = (tensors.map E.numel).sum) (hre : 0 < regEps) :
    ∃ w mg, upgradWeights (fullJac E tensors inputs) (sv (fullJac E tensors inputs)) normEps regEps u = some (w, mg) ∧
      upgradAgg sv normEps regEps u (fullJac E tensors inputs) =
        .ok (combine ((inputs.map E.numel).sum) (fullJac E tensors inputs) w) := by
  obtain ⟨w, mg, hw⟩ := upgradWeights_complete (fullJac E tensors inputs) _ _
    (fullJac_matWF_e2e E tensors inputs hwf) (sv (fullJac E tensors inputs)) normEps regEps hre u hu
  refine ⟨w, mg, hw, ?_⟩
  have hl : ¬ (fullJac E tensors inputs).length ≠ u.length := by
    rw [fullJac_length, hu]; exact fun h => h rfl
  unfold upgradAgg
  simp only [if_neg hl, hw, fullJac_ncols_e2e E tensors inputs hwf hrows]

/-- value of the DualProj aggregator on the true Jacobian -/
theorem dualprojAgg_fullJac_e2e (E : Engine α) (tensors inputs : List Key) (sv : Mat α → α)
    (normEps regEps : α) (u : Vec α) (hwf : E.WF) (hrows : 0 < (tensors.map E.numel).sum)
    (hu : u.length = (tensors.map E.numel).sum) (hre : 0 < regEps) :
    ∃ w mg, dualprojWeights (fullJac E tensors inputs) (sv (fullJac E tensors inputs)) normEps regEps u = some (w, mg) ∧
      dualprojAgg sv normEps regEps u (fullJac E tensors inputs) =
        .ok (combine ((inputs.map E.numel).sum) (fullJac E tensors inputs) w) := by
  obtain ⟨w, mg, hw⟩ := dualprojWeights_complete (fullJac E tensors inputs) _ _
    (fullJac_matWF_e2e E tensors inputs hwf) (sv (fullJac E tensors inputs)) normEps regEps hre u hu
  refine ⟨w, mg, hw, ?_⟩
  have hl : ¬ (fullJac E tensors inputs).length ≠ u.length := by
    rw [fullJac_length, hu]; exact fun h => h rfl
  unfold dualprojAgg
  simp only [if_neg hl, hw, fullJac_ncols_e2e E tensors inputs hwf hrows]

theorem e2e_upgrad (E : Engine α) (tensors inputs : List Key) (sv : Mat α → α)
    (normEps regEps : α) (u : Vec α) (chunk : Option Int) (retain : Bool) (h : Grads α)
    (hwf : E.WF) (htn : tensors.Nodup) (hin : inputs.Nodup) (hrows : 0 < (tensors.map E.numel).sum)
    (hchunk : ∀ c, chunk = some c → 0 < c) (houts : ∀ t ∈ tensors, E.requiresGrad t = true)
    (hins : ∀ i ∈ inputs, E.requiresGrad i = true ∧ E.expectsGrad i = true) (hne : inputs ≠ [])
    (hu : u.length = (tensors.map E.numel).sum) (hre : 0 < regEps)
    (hs : normEps ≤ sv (fullJac E tensors inputs)) (hs0 : 0 < sv (fullJac E tensors inputs)) :
    (backward E tensors inputs (upgradAgg sv normEps regEps u) chunk retain h).err = none ∧
    ∃ v w : Vec α,
      v = combine ((inputs.map E.numel).sum) (fullJac E tensors inputs) w ∧
      (∀ k, (backward E tensors inputs (upgradAgg sv normEps regEps u) chunk retain h).grads k =
        if k ∈ inputs then accum (h k) (sliceOf E.numel inputs k v) else h k) ∧
      NonConflictUpTo (fullJac E tensors inputs) v
        (w.map fun wi => regEps * (sv (fullJac E tensors inputs) * sv (fullJac E tensors inputs)) * wi) := by
  have hv : ValidCall E tensors inputs chunk := ⟨hwf, htn, hin, hrows, hchunk, houts, hins⟩
  obtain ⟨w, mg, hw, hA⟩ := upgradAgg_fullJac_e2e E tensors inputs sv normEps regEps u hwf hrows hu hre
  have hWF := fullJac_matWF_e2e E tensors inputs hwf
  obtain ⟨herr, hg⟩ := backward_eq_spec E tensors inputs _ chunk retain h hv hne _ hA
    (combine_length_e2e _ _ w hWF.2)
  exact ⟨herr, _, w, rfl, hg, upgrad_nc _ _ _ hWF _ normEps regEps hs hs0 u w hu mg hw⟩

theorem e2e_dualproj (E : Engine α) (tensors inputs : List Key) (sv : Mat α → α)
    (normEps regEps : α) (u : Vec α) (chunk : Option Int) (retain : Bool) (h : Grads α)
    (hwf : E.WF) (htn : tensors.Nodup) (hin : inputs.Nodup) (hrows : 0 < (tensors.map E.numel).sum)
    (hchunk : ∀ c, chunk = some c → 0 < c) (houts : ∀ t ∈ tensors, E.requiresGrad t = true)
    (hins : ∀ i ∈ inputs, E.requiresGrad i = true ∧ E.expectsGrad i = true) (hne : inputs ≠ [])
    (hu : u.length = (tensors.map E.numel).sum) (hre : 0 < regEps)
    (hs : normEps ≤ sv (fullJac E tensors inputs)) (hs0 : 0 < sv (fullJac E tensors inputs)) :
    (backward E tensors inputs (dualprojAgg sv normEps regEps u) chunk retain h).err = none ∧
    ∃ v w : Vec α,
      v = combine ((inputs.map E.numel).sum) (fullJac E tensors inputs) w ∧
      (∀ k, (backward E tensors inputs (dualprojAgg sv normEps regEps u) chunk retain h).grads k =
        if k ∈ inputs then accum (h k) (sliceOf E.numel inputs k v) else h k) ∧
      NonConflictUpTo (fullJac E tensors inputs) v
        (w.map fun wi => regEps * (sv (fullJac E tensors inputs) * sv (fullJac E tensors inputs)) * wi) := by
  have hv : ValidCall E tensors inputs chunk := ⟨hwf, htn, hin, hrows, hchunk, houts, hins⟩
  obtain ⟨w, mg, hw, hA⟩ := dualprojAgg_fullJac_e2e E tensors inputs sv normEps regEps u hwf hrows hu hre
  have hWF := fullJac_matWF_e2e E tensors inputs hwf
  obtain ⟨herr, hg⟩ := backward_eq_spec E tensors inputs _ chunk retain h hv hne _ hA
    (combine_length_e2e _ _ w hWF.2)
  exact ⟨herr, _, w, rfl, hg, dualproj_nc _ _ _ hWF _ normEps regEps hs hs0 u w hu mg hw⟩

-- `[IsStrictOrderedRing α]` is kept as an (unused) argument so that the caller in C04b.lean uses all of its section variables
set_option linter.unusedSectionVars false in
theorem e2e_upgrad_wrong_length (E : Engine α) (tensors inputs : List Key) (sv : Mat α → α)
    (normEps regEps : α) (u : Vec α) (chunk : Option Int) (retain : Bool) (h : Grads α)
    (hwf : E.WF) (htn : tensors.Nodup) (hin : inputs.Nodup) (hrows : 0 < (tensors.map E.numel).sum)
    (hchunk : ∀ c, chunk = some c → 0 < c) (houts : ∀ t ∈ tensors, E.requiresGrad t = true)
    (hins : ∀ i ∈ inputs, E.requiresGrad i = true ∧ E.expectsGrad i = true) (hne : inputs ≠ [])
    (hu : u.length ≠ (tensors.map E.numel).sum) :
    (backward E tensors inputs (upgradAgg sv normEps regEps u) chunk retain h).err = some Err.value ∧
    (backward E tensors inputs (upgradAgg sv normEps regEps u) chunk retain h).grads = h := by
  have hv : ValidCall E tensors inputs chunk := ⟨hwf, htn, hin, hrows, hchunk, houts, hins⟩
  apply backward_aggregator_error E tensors inputs _ chunk retain h hv hne
  have hl : (fullJac E tensors inputs).length ≠ u.length := by
    rw [fullJac_length]; exact fun h => hu h.symm
  unfold upgradAgg
  simp only [if_pos hl]

end Tjd.Agg
