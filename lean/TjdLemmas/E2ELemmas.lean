/-
  Helper lemmas for TjdProps/C04b.lean: composition of the autojac model (`backward`, C01) with the UPGrad / DualProj
  aggregator models (`upgradAgg`, `dualprojAgg`): non-conflict (QPLemmas) + totality of the certified QP search
  (QPComplete).
-/
import Mathlib.Algebra.Order.Field.Basic
import TjdModel.Agg.AsAggregator
import TjdProps.C01
import TjdProps.C02
import TjdLemmas.QPLemmas
import TjdLemmas.QPComplete
namespace Tjd.Agg
open Tjd Tjd.Autojac Tjd.Props.C01

variable {α : Type} [Field α] [LinearOrder α] [IsStrictOrderedRing α]

/-- `combine n J w` has length `n` when every row of `J` has (no hypothesis on `w`) -/
theorem combine_length_e2e (n : Nat) (J : Mat α) (w : Vec α) (hJ : ∀ row ∈ J, row.length = n) :
    (combine n J w).length = n := by
  unfold combine
  apply Tjd.Agg.vsum_length
  intro x hx
  obtain ⟨i, hi, rfl⟩ := List.mem_iff_getElem.mp hx
  rw [List.getElem_zipWith]
  simp only [smul, List.length_map]
  exact hJ _ (List.getElem_mem _)

omit [LinearOrder α] [IsStrictOrderedRing α] in
theorem fullJac_matWF_e2e (E : Engine α) (tensors inputs : List Key) (hwf : E.WF) :
    MatWF (fullJac E tensors inputs) ((tensors.map E.numel).sum) ((inputs.map E.numel).sum) :=
  ⟨fullJac_length E tensors inputs, fullJac_row_length E hwf tensors inputs⟩

omit [LinearOrder α] [IsStrictOrderedRing α] in
theorem fullJac_ncols_e2e (E : Engine α) (tensors inputs : List Key) (hwf : E.WF)
    (hrows : 0 < (tensors.map E.numel).sum) :
    ncols (fullJac E tensors inputs) = (inputs.map E.numel).sum :=
  ncols_of_rows _ _ (fullJac_ne_nil E tensors inputs hrows) (fullJac_row_length E hwf tensors inputs)

/-- value of the UPGrad aggregator on the true Jacobian -/
theorem upgradAgg_fullJac_e2e (E : Engine α) (tensors inputs : List Key) (sv : Mat α → α)
    (normEps regEps : α) (u : Vec α) (hwf : E.WF) (hrows : 0 < (tensors.map E.numel).sum)
    (hu : u.length = (tensors.map E.numel).sum) (hre : 0 < regEps) :
    ∃ w mg, upgradWeights (fullJac E tensors inputs) (sv (fullJac E tensors inputs)) normEps regEps u = some (w, mg) ∧
      upgradAgg sv normEps regEps u (fullJac E tensors inputs) =
        .ok (combine ((inputs.map E.numel).sum) (fullJac E tensors inputs) w) := by
  obtain ⟨w, mg, hw⟩ := upgradWeights_complete (fullJac E tensors inputs) _ _
    (fullJac_matWF_e2e E tensors inputs hwf) (sv (fullJac E tensors inputs)) normEps regEps hre u hu
  refine ⟨w, mg, hw, ?_⟩
  have hl : ¬ (fullJac E tensors inputs).length ≠ u.length := by
    rw [fullJac_length, hu]; exact fun h => h rfl
  unfold upgradAgg
  simp only [if_neg hl, hw, fullJac_ncols_e2e E tensors inputs hwf hrows]

/-- value of the DualProj aggregator on the true Jacobian -/
theorem dualprojAgg_fullJac_e2e (E : Engine α) (tensors inputs : List Key) (sv : Mat α → α)
    (normEps regEps : α) (u : Vec α) (hwf : E.WF) (hrows : 0 < (tensors.map E.numel).sum)
    (hu : u.length = (tensors.map E.numel).sum) (hre : 0 < regEps) :
    ∃ w mg, dualprojWeights (fullJac E tensors inputs) (sv (fullJac E tensors inputs)) normEps regEps u = some (w, mg) ∧
      dualprojAgg sv normEps regEps u (fullJac E tensors inputs) =
        .ok (combine ((inputs.map E.numel).sum) (fullJac E tensors inputs) w) := by
  obtain ⟨w, mg, hw⟩ := dualprojWeights_complete (fullJac E tensors inputs) _ _
    (fullJac_matWF_e2e E tensors inputs hwf) (sv (fullJac E tensors inputs)) normEps regEps hre u hu
  refine ⟨w, mg, hw, ?_⟩
  have hl : ¬ (fullJac E tensors inputs).length ≠ u.length := by
    rw [fullJac_length, hu]; exact fun h => h rfl
  unfold dualprojAgg
  simp only [if_neg hl, hw, fullJac_ncols_e2e E tensors inputs hwf hrows]

theorem e2e_upgrad (E : Engine α) (tensors inputs : List Key) (sv : Mat α → α)
    (normEps regEps : α) (u : Vec α) (chunk : Option Int) (retain : Bool) (h : Grads α)
    (hwf : E.WF) (htn : tensors.Nodup) (hin : inputs.Nodup) (hrows : 0 < (tensors.map E.numel).sum)
    (hchunk : ∀ c, chunk = some c → 0 < c) (houts : ∀ t ∈ tensors, E.requiresGrad t = true)
    (hins : ∀ i ∈ inputs, E.requiresGrad i = true ∧ E.expectsGrad i = true) (hne : inputs ≠ [])
    (hu : u.length = (tensors.map E.numel).sum) (hre : 0 < regEps)
    (hs : normEps ≤ sv (fullJac E tensors inputs)) (hs0 : 0 < sv (fullJac E tensors inputs)) :
    (backward E tensors inputs (upgradAgg sv normEps regEps u) chunk retain h).err = none ∧
    ∃ v w : Vec α,
      v = combine ((inputs.map E.numel).sum) (fullJac E tensors inputs) w ∧
      (∀ k, (backward E tensors inputs (upgradAgg sv normEps regEps u) chunk retain h).grads k =
        if k ∈ inputs then accum (h k) (sliceOf E.numel inputs k v) else h k) ∧
      NonConflictUpTo (fullJac E tensors inputs) v
        (w.map fun wi => regEps * (sv (fullJac E tensors inputs) * sv (fullJac E tensors inputs)) * wi) := by
  have hv : ValidCall E tensors inputs chunk := ⟨hwf, htn, hin, hrows, hchunk, houts, hins⟩
  obtain ⟨w, mg, hw, hA⟩ := upgradAgg_fullJac_e2e E tensors inputs sv normEps regEps u hwf hrows hu hre
  have hWF := fullJac_matWF_e2e E tensors inputs hwf
  obtain ⟨herr, hg⟩ := backward_eq_spec E tensors inputs _ chunk retain h hv hne _ hA
    (combine_length_e2e _ _ w hWF.2)
  exact ⟨herr, _, w, rfl, hg, upgrad_nc _ _ _ hWF _ normEps regEps hs hs0 u w hu mg hw⟩

theorem e2e_dualproj (E : Engine α) (tensors inputs : List Key) (sv : Mat α → α)
    (normEps regEps : α) (u : Vec α) (chunk : Option Int) (retain : Bool) (h : Grads α)
    (hwf : E.WF) (htn : tensors.Nodup) (hin : inputs.Nodup) (hrows : 0 < (tensors.map E.numel).sum)
    (hchunk : ∀ c, chunk = some c → 0 < c) (houts : ∀ t ∈ tensors, E.requiresGrad t = true)
    (hins : ∀ i ∈ inputs, E.requiresGrad i = true ∧ E.expectsGrad i = true) (hne : inputs ≠ [])
    (hu : u.length = (tensors.map E.numel).sum) (hre : 0 < regEps)
    (hs : normEps ≤ sv (fullJac E tensors inputs)) (hs0 : 0 < sv (fullJac E tensors inputs)) :
    (backward E tensors inputs (dualprojAgg sv normEps regEps u) chunk retain h).err = none ∧
    ∃ v w : Vec α,
      v = combine ((inputs.map E.numel).sum) (fullJac E tensors inputs) w ∧
      (∀ k, (backward E tensors inputs (dualprojAgg sv normEps regEps u) chunk retain h).grads k =
        if k ∈ inputs then accum (h k) (sliceOf E.numel inputs k v) else h k) ∧
      NonConflictUpTo (fullJac E tensors inputs) v
        (w.map fun wi => regEps * (sv (fullJac E tensors inputs) * sv (fullJac E tensors inputs)) * wi) := by
  have hv : ValidCall E tensors inputs chunk := ⟨hwf, htn, hin, hrows, hchunk, houts, hins⟩
  obtain ⟨w, mg, hw, hA⟩ := dualprojAgg_fullJac_e2e E tensors inputs sv normEps regEps u hwf hrows hu hre
  have hWF := fullJac_matWF_e2e E tensors inputs hwf
  obtain ⟨herr, hg⟩ := backward_eq_spec E tensors inputs _ chunk retain h hv hne _ hA
    (combine_length_e2e _ _ w hWF.2)
  exact ⟨herr, _, w, rfl, hg, dualproj_nc _ _ _ hWF _ normEps regEps hs hs0 u w hu mg hw⟩

-- `[IsStrictOrderedRing α]` is kept as an (unused) argument so that the caller in C04b.lean uses all of its section variables
set_option linter.unusedSectionVars false in
theorem e2e_upgrad_wrong_length (E : Engine α) (tensors inputs : List Key) (sv : Mat α → α)
    (normEps regEps : α) (u : Vec α) (chunk : Option Int) (retain : Bool) (h : Grads α)
    (hwf : E.WF) (htn : tensors.Nodup) (hin : inputs.Nodup) (hrows : 0 < (tensors.map E.numel).sum)
    (hchunk : ∀ c, chunk = some c → 0 < c) (houts : ∀ t ∈ tensors, E.requiresGrad t = true)
    (hins : ∀ i ∈ inputs, E.requiresGrad i = true ∧ E.expectsGrad i = true) (hne : inputs ≠ [])
    (hu : u.length ≠ (tensors.map E.numel).sum) :
    (backward E tensors inputs (upgradAgg sv normEps regEps u) chunk retain h).err = some Err.value ∧
    (backward E tensors inputs (upgradAgg sv normEps regEps u) chunk retain h).grads = h := by
  have hv : ValidCall E tensors inputs chunk := ⟨hwf, htn, hin, hrows, hchunk, houts, hins⟩
  apply backward_aggregator_error E tensors inputs _ chunk retain h hv hne
  have hl : (fullJac E tensors inputs).length ≠ u.length := by
    rw [fullJac_length]; exact fun h => hu h.symm
  unfold upgradAgg
  simp only [if_pos hl]

/-! ### the same for `mtl_backward` (C02): `mtlJac E losses features shared` in place of `fullJac E tensors inputs` -/

open Tjd.Props.C02

omit [LinearOrder α] [IsStrictOrderedRing α] in
theorem mtlJac_rows_e2e (E : Engine α) (losses features shared : List Key) (hwf : E.WF) :
    ∀ row ∈ mtlJac E losses features shared, row.length = (shared.map E.numel).sum := by
  intro row hrow
  unfold mtlJac at hrow
  obtain ⟨l, _, rfl⟩ := List.mem_map.mp hrow
  exact mtlRow_length E hwf features shared l

omit [LinearOrder α] [IsStrictOrderedRing α] in
theorem mtlJac_length_e2e (E : Engine α) (losses features shared : List Key) :
    (mtlJac E losses features shared).length = losses.length := by
  unfold mtlJac
  exact List.length_map _

omit [LinearOrder α] [IsStrictOrderedRing α] in
theorem mtlJac_matWF_e2e (E : Engine α) (losses features shared : List Key) (hwf : E.WF) :
    MatWF (mtlJac E losses features shared) losses.length ((shared.map E.numel).sum) :=
  ⟨mtlJac_length_e2e E losses features shared, mtlJac_rows_e2e E losses features shared hwf⟩

omit [LinearOrder α] [IsStrictOrderedRing α] in
theorem mtlJac_ncols_e2e (E : Engine α) (losses features shared : List Key) (hwf : E.WF)
    (hl : losses ≠ []) :
    ncols (mtlJac E losses features shared) = (shared.map E.numel).sum := by
  apply ncols_of_rows _ _ _ (mtlJac_rows_e2e E losses features shared hwf)
  intro h0
  apply hl
  have h1 := mtlJac_length_e2e E losses features shared
  rw [h0] at h1
  exact List.length_eq_zero_iff.mp h1.symm

/-- value of the UPGrad aggregator on the feature-level Jacobian of `mtl_backward` -/
theorem upgradAgg_mtlJac_e2e (E : Engine α) (losses features shared : List Key) (sv : Mat α → α)
    (normEps regEps : α) (u : Vec α) (hwf : E.WF) (hl : losses ≠ [])
    (hu : u.length = losses.length) (hre : 0 < regEps) :
    ∃ w mg, upgradWeights (mtlJac E losses features shared) (sv (mtlJac E losses features shared))
        normEps regEps u = some (w, mg) ∧
      upgradAgg sv normEps regEps u (mtlJac E losses features shared) =
        .ok (combine ((shared.map E.numel).sum) (mtlJac E losses features shared) w) := by
  obtain ⟨w, mg, hw⟩ := upgradWeights_complete (mtlJac E losses features shared) _ _
    (mtlJac_matWF_e2e E losses features shared hwf) (sv (mtlJac E losses features shared))
    normEps regEps hre u hu
  refine ⟨w, mg, hw, ?_⟩
  have hlen : ¬ (mtlJac E losses features shared).length ≠ u.length := by
    rw [mtlJac_length_e2e, hu]; exact fun h => h rfl
  unfold upgradAgg
  simp only [if_neg hlen, hw, mtlJac_ncols_e2e E losses features shared hwf hl]

/-- value of the DualProj aggregator on the feature-level Jacobian of `mtl_backward` -/
theorem dualprojAgg_mtlJac_e2e (E : Engine α) (losses features shared : List Key) (sv : Mat α → α)
    (normEps regEps : α) (u : Vec α) (hwf : E.WF) (hl : losses ≠ [])
    (hu : u.length = losses.length) (hre : 0 < regEps) :
    ∃ w mg, dualprojWeights (mtlJac E losses features shared) (sv (mtlJac E losses features shared))
        normEps regEps u = some (w, mg) ∧
      dualprojAgg sv normEps regEps u (mtlJac E losses features shared) =
        .ok (combine ((shared.map E.numel).sum) (mtlJac E losses features shared) w) := by
  obtain ⟨w, mg, hw⟩ := dualprojWeights_complete (mtlJac E losses features shared) _ _
    (mtlJac_matWF_e2e E losses features shared hwf) (sv (mtlJac E losses features shared))
    normEps regEps hre u hu
  refine ⟨w, mg, hw, ?_⟩
  have hlen : ¬ (mtlJac E losses features shared).length ≠ u.length := by
    rw [mtlJac_length_e2e, hu]; exact fun h => h rfl
  unfold dualprojAgg
  simp only [if_neg hlen, hw, mtlJac_ncols_e2e E losses features shared hwf hl]

theorem e2e_mtl_upgrad (E : Engine α) (ndim : Key → Nat) (losses features : List Key)
    (tps : List (List Key)) (shared : List Key) (sv : Mat α → α) (normEps regEps : α) (u : Vec α)
    (chunk : Option Int) (retain : Bool) (h : Grads α)
    (hv : ValidMtl E ndim losses features tps shared chunk) (hs : shared ≠ [])
    (hu : u.length = losses.length) (hre : 0 < regEps)
    (hsv : normEps ≤ sv (mtlJac E losses features shared)) (hs0 : 0 < sv (mtlJac E losses features shared)) :
    let o := mtlBackward E ndim losses features tps shared (upgradAgg sv normEps regEps u) chunk retain h
    o.err = none ∧
    ∃ v w : Vec α,
      v = combine ((shared.map E.numel).sum) (mtlJac E losses features shared) w ∧
      (∀ k, o.grads k = if k ∈ shared then accum (h k) (sliceOf E.numel shared k v)
                        else taskAccum E (List.zip tps losses) k (h k)) ∧
      NonConflictUpTo (mtlJac E losses features shared) v
        (w.map fun wi => regEps * (sv (mtlJac E losses features shared) * sv (mtlJac E losses features shared)) * wi) := by
  obtain ⟨w, mg, hw, hA⟩ := upgradAgg_mtlJac_e2e E losses features shared sv normEps regEps u hv.wf
    hv.losses_ne hu hre
  have hWF := mtlJac_matWF_e2e E losses features shared hv.wf
  obtain ⟨herr, hg⟩ := mtl_eq_spec E ndim losses features tps shared _ chunk retain h hv hs _ hA
    (combine_length_e2e _ _ w hWF.2)
  exact ⟨herr, _, w, rfl, hg, upgrad_nc _ _ _ hWF _ normEps regEps hsv hs0 u w hu mg hw⟩

theorem e2e_mtl_dualproj (E : Engine α) (ndim : Key → Nat) (losses features : List Key)
    (tps : List (List Key)) (shared : List Key) (sv : Mat α → α) (normEps regEps : α) (u : Vec α)
    (chunk : Option Int) (retain : Bool) (h : Grads α)
    (hv : ValidMtl E ndim losses features tps shared chunk) (hs : shared ≠ [])
    (hu : u.length = losses.length) (hre : 0 < regEps)
    (hsv : normEps ≤ sv (mtlJac E losses features shared)) (hs0 : 0 < sv (mtlJac E losses features shared)) :
    let o := mtlBackward E ndim losses features tps shared (dualprojAgg sv normEps regEps u) chunk retain h
    o.err = none ∧
    ∃ v w : Vec α,
      v = combine ((shared.map E.numel).sum) (mtlJac E losses features shared) w ∧
      (∀ k, o.grads k = if k ∈ shared then accum (h k) (sliceOf E.numel shared k v)
                        else taskAccum E (List.zip tps losses) k (h k)) ∧
      NonConflictUpTo (mtlJac E losses features shared) v
        (w.map fun wi => regEps * (sv (mtlJac E losses features shared) * sv (mtlJac E losses features shared)) * wi) := by
  obtain ⟨w, mg, hw, hA⟩ := dualprojAgg_mtlJac_e2e E losses features shared sv normEps regEps u hv.wf
    hv.losses_ne hu hre
  have hWF := mtlJac_matWF_e2e E losses features shared hv.wf
  obtain ⟨herr, hg⟩ := mtl_eq_spec E ndim losses features tps shared _ chunk retain h hv hs _ hA
    (combine_length_e2e _ _ w hWF.2)
  exact ⟨herr, _, w, rfl, hg, dualproj_nc _ _ _ hWF _ normEps regEps hsv hs0 u w hu mg hw⟩

end Tjd.Agg
