/- helper lemmas for TjdProps/C01.lean, C05.lean, C15.lean (and C02) -/
import Mathlib.Algebra.Ring.Defs
import TjdModel.Autojac.Spec
namespace Tjd.Autojac

end Tjd.Autojac
