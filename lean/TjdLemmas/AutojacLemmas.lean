/- helper lemmas for TjdProps/C01.lean, C05.lean, C15.lean (and C02) -/
import Mathlib.Algebra.Ring.Defs
import TjdModel.Autojac.Spec
import TjdLemmas.Aj.Lists
import TjdLemmas.Aj.VecAlg
import TjdLemmas.Aj.EngineLemmas
import TjdLemmas.Aj.Transforms
import TjdLemmas.Aj.Chunks
import TjdLemmas.Aj.Jac
import TjdLemmas.Aj.Backward
import TjdLemmas.Aj.Perm
import TjdLemmas.Aj.Linear
namespace Tjd.Autojac

end Tjd.Autojac
