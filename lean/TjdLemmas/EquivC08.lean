/- helper lemmas for TjdProps/C08.lean: orthogonal change of coordinates, column layout -/
import TjdLemmas.EquivBase
namespace Tjd.Agg.Eqv
open Tjd Matrix
set_option linter.unusedSectionVars false
set_option linter.unusedSimpArgs false
set_option linter.unusedVariables false

variable {α : Type} [Field α] [LinearOrder α] [IsStrictOrderedRing α]

/-! ### zero column -/

theorem dot_append_zero : ∀ (x y : Vec α), dot (x ++ [0]) (y ++ [0]) = dot x y
  | [], [] => by simp [dot]
  | [], b :: y => by simp [dot]
  | a :: x, [] => by simp [dot]
  | a :: x, b :: y => by
    simp only [List.cons_append, dot_cons_cons, dot_append_zero x y]

theorem gram_append_zero (J : Mat α) : gram (J.map (· ++ [0])) = gram J := by
  simp [gram, List.map_map, Function.comp_def, dot_append_zero]

theorem getD_append_zero_lt (x : Vec α) (k : Nat) (hk : k < x.length) :
    (x ++ [0]).getD k 0 = x.getD k 0 := by
  simp [List.getD_eq_getElem?_getD, List.getElem?_append_left hk]

theorem getD_append_zero_ge (x : Vec α) (k : Nat) (hk : x.length ≤ k) :
    (x ++ [0]).getD k 0 = 0 := by
  rw [List.getD_eq_getElem?_getD, List.getElem?_append_right hk]
  cases h : k - x.length <;> simp

theorem getD_map_row {β γ : Type} (f : β → γ) (J : List β) (i : Nat) (hi : i < J.length) (d : β) (d' : γ) :
    (J.map f).getD i d' = f (J.getD i d) := by
  simp [List.getD_eq_getElem?_getD, List.getElem?_eq_getElem hi]

theorem matWF_append_zero (J : Mat α) (m n : Nat) (hJ : MatWF J m n) :
    MatWF (J.map (· ++ [0])) m (n + 1) := by
  refine ⟨by simp [hJ.1], ?_⟩
  intro row hrow
  obtain ⟨r, hr, rfl⟩ := List.mem_map.mp hrow
  simp [hJ.2 r hr]

theorem combine_append_zero (J : Mat α) (m n : Nat) (hJ : MatWF J m n) (w : Vec α)
    (hw : w.length = m) :
    combine (n + 1) (J.map (· ++ [0])) w = combine n J w ++ [0] := by
  have hJ' := matWF_append_zero J m n hJ
  have hl := combine_length n J hJ.2 w
  apply vec_ext (n + 1) _ _ (combine_length (n + 1) _ hJ'.2 w) (by simp [hl])
  intro k hk
  rw [combine_getD _ m (n + 1) hJ' w hw k hk]
  by_cases hkn : k < n
  · rw [getD_append_zero_lt _ k (by omega), combine_getD J m n hJ w hw k hkn]
    apply Finset.sum_congr rfl
    intro i _
    have hi : (i : Nat) < J.length := by rw [hJ.1]; exact i.2
    rw [getD_map_row _ J i hi [] [], getD_append_zero_lt _ k
      (by rw [getD_row_length J m n hJ i i.2]; exact hkn)]
  · rw [getD_append_zero_ge _ k (by omega)]
    apply Finset.sum_eq_zero
    intro i _
    have hi : (i : Nat) < J.length := by rw [hJ.1]; exact i.2
    rw [getD_map_row _ J i hi [] [], getD_append_zero_ge _ k
      (by rw [getD_row_length J m n hJ i i.2]; omega), mul_zero]

/-! ### multiplication on the right -/

theorem orthogonal_matWF (Q : Mat α) (n : Nat) (hQ : Orthogonal Q n) : MatWF Q n n :=
  ⟨hQ.1, hQ.2.1⟩

theorem mulRight_matWF (J Q : Mat α) (m n : Nat) (hJ : MatWF J m n) (hQ : MatWF Q n n) :
    MatWF (mulRight n J Q) m n := by
  refine ⟨by simp [mulRight, hJ.1], ?_⟩
  intro row hrow
  obtain ⟨r, hr, rfl⟩ := List.mem_map.mp hrow
  exact combine_length n Q hQ.2 r

theorem mulRight_getD (J Q : Mat α) (n i : Nat) (hi : i < J.length) :
    (mulRight n J Q).getD i [] = combine n Q (J.getD i []) :=
  getD_map_row _ J i hi [] []

theorem toMat_mulRight (J Q : Mat α) (m n : Nat) (hJ : MatWF J m n) (hQ : MatWF Q n n) :
    toMat m n (mulRight n J Q) = toMat m n J * toMat n n Q := by
  ext i k
  have hi : (i : Nat) < J.length := by rw [hJ.1]; exact i.2
  rw [toMat_apply, mulRight_getD J Q n i hi]
  have := congrFun (toFn_combine Q n n hQ (J.getD i []) (getD_row_length J m n hJ i i.2)) k
  rw [toFn_apply] at this
  rw [this]
  rfl

theorem combine_mulRight' (J Q : Mat α) (m n : Nat) (hJ : MatWF J m n) (hQ : MatWF Q n n) (w : Vec α)
    (hw : w.length = m) :
    combine n (mulRight n J Q) w = combine n Q (combine n J w) := by
  have hJQ := mulRight_matWF J Q m n hJ hQ
  have hl := combine_length n J hJ.2 w
  apply toFn_injective n _ _ (combine_length n _ hJQ.2 w) (combine_length n Q hQ.2 _)
  rw [toFn_combine _ m n hJQ w hw, toFn_combine Q n n hQ _ hl, toFn_combine J m n hJ w hw,
    toMat_mulRight J Q m n hJ hQ, vecMul_vecMul]

theorem toMat_orthogonal (Q : Mat α) (n : Nat) (hQ : Orthogonal Q n) :
    toMat n n Q * (toMat n n Q)ᵀ = 1 := by
  ext i j
  rw [← dot_rows Q n n (orthogonal_matWF Q n hQ) i j, hQ.2.2 i j i.2 j.2, Matrix.one_apply]
  simp only [Fin.ext_iff]

theorem dot_combine_orthogonal (Q : Mat α) (n : Nat) (hQ : Orthogonal Q n) (x y : Vec α)
    (hx : x.length = n) (hy : y.length = n) :
    dot (combine n Q x) (combine n Q y) = dot x y := by
  have hQ' := orthogonal_matWF Q n hQ
  rw [dot_eq_left n _ _ (combine_length n Q hQ'.2 x).le, toFn_combine Q n n hQ' x hx,
    toFn_combine Q n n hQ' y hy, dot_eq_left n x y hx.le, ← mulVec_transpose (toMat n n Q) (toFn n y),
    dotProduct_mulVec, vecMul_vecMul, toMat_orthogonal Q n hQ, vecMul_one]

theorem gram_mulRight (J Q : Mat α) (m n : Nat) (hJ : MatWF J m n) (hQ : Orthogonal Q n) :
    gram (mulRight n J Q) = gram J := by
  simp only [gram, mulRight, List.map_map]
  apply List.map_congr_left
  intro r hr
  apply List.map_congr_left
  intro r' hr'
  exact dot_combine_orthogonal Q n hQ r r' (hJ.2 r hr) (hJ.2 r' hr')

theorem mulRight_length (J Q : Mat α) (n : Nat) : (mulRight n J Q).length = J.length := by
  simp [mulRight]

theorem regNormGram_mulRight (J Q : Mat α) (m n : Nat) (hJ : MatWF J m n) (hQ : Orthogonal Q n)
    (s normEps regEps : α) :
    regNormGram (mulRight n J Q) s normEps regEps = regNormGram J s normEps regEps := by
  simp only [regNormGram, gram_mulRight J Q m n hJ hQ, mulRight_length]

theorem gram_length (J : Mat α) : (gram J).length = J.length := by simp [gram]

/-! ### lengths of the PCGrad / MGDA weights -/

theorem foldl_invariant {σ ι : Type} (P : σ → Prop) (f : σ → ι → σ) (hf : ∀ s i, P s → P (f s i)) :
    ∀ (l : List ι) (s : σ), P s → P (l.foldl f s)
  | [], s, h => h
  | i :: l, s, h => foldl_invariant P f hf l (f s i) (hf s i h)

theorem oneHot_length (m i : Nat) : (oneHot m i : Vec α).length = m := by simp [oneHot]

theorem pcgradWeights_length (G : Mat α) (perms : List (List Nat)) :
    (pcgradWeights G perms).1.length = G.length := by
  simp only [pcgradWeights]
  apply vsum_length
  intro x hx
  simp only [List.map_map, List.mem_map, List.mem_range, Function.comp] at hx
  obtain ⟨i, hi, rfl⟩ := hx
  apply foldl_invariant (fun st : Vec α × α => st.1.length = G.length)
  · intro st j hst
    split_ifs <;> simp [hst]
  · exact oneHot_length _ _

theorem fwStep_length (G : Mat α) (alpha : Vec α) : (fwStep G alpha).1.length = alpha.length := by
  simp only [fwStep]
  rw [vadd_length _ _ (by rw [smul_length, smul_length, oneHot_length]), smul_length]

theorem mgda_go_length (G : Mat α) (epsilon : α) : ∀ (k : Nat) (alpha : Vec α) (mg : α),
    (mgdaWeights.go G epsilon k alpha mg).1.length = alpha.length
  | 0, alpha, mg => by simp [mgdaWeights.go]
  | k + 1, alpha, mg => by
    rw [mgdaWeights.go]
    have h := fwStep_length G alpha
    rcases hfs : fwStep G alpha with ⟨a', g, mg'⟩
    rw [hfs] at h
    dsimp only at h ⊢
    split_ifs
    · exact h
    · rw [mgda_go_length G epsilon k]; exact h

theorem mgdaWeights_length (G : Mat α) (m : Nat) (mInv epsilon : α) (K : Nat) :
    (mgdaWeights G m mInv epsilon K).1.length = m := by
  rw [mgdaWeights, mgda_go_length]; simp

/-! ### column permutations -/

theorem map_range_getD {β : Type} (f : Nat → β) (n i : Nat) (hi : i < n) (d : β) :
    ((List.range n).map f).getD i d = f i := by
  simp [List.getD_eq_getElem?_getD, List.getElem?_range hi]

section colperm
variable [Inhabited α]

theorem matWF_map_permV (J : Mat α) (m n : Nat) (hJ : MatWF J m n) (p : List Nat) (hp : p.length = n) :
    MatWF (J.map (permV p)) m n := by
  refine ⟨by simp [hJ.1], ?_⟩
  intro row hrow
  obtain ⟨r, hr, rfl⟩ := List.mem_map.mp hrow
  rw [permV_length, hp]

theorem col_map_permV (J : Mat α) (p : List Nat) (c : Nat) (hc : c < p.length) :
    col (J.map (permV p)) c = col J p[c] := by
  simp only [col, List.map_map]
  apply List.map_congr_left
  intro r _
  exact permV_getD p r c hc default

theorem trimmedMean_col_perm' (b m n : Nat) (J : Mat α) (hJ : MatWF J m n)
    (p : List Nat) (hp : p.length = n) (hlt : ∀ i ∈ p, i < n) :
    trimmedMean b n (J.map (permV p)) = permV p (trimmedMean b n J) := by
  apply List.ext_getElem
  · simp [trimmedMean, permV, hp]
  intro c h1 h2
  have hc : c < n := by simpa [trimmedMean] using h1
  have hcp : c < p.length := by omega
  have hpc : p[c] < n := hlt _ (List.getElem_mem _)
  rw [permV_getElem]
  simp only [trimmedMean, List.getElem_map, List.getElem_range]
  rw [map_range_getD _ n _ hpc, col_map_permV J p c hcp]

theorem graddrop_col_perm' (m n : Nat) (J : Mat α) (hJ : MatWF J m n) (leak U : Vec α)
    (hU : U.length = n) (p : List Nat) (hp : p.length = n) (hlt : ∀ i ∈ p, i < n) :
    graddrop (J.map (permV p)) leak (permV p U) n = permV p (graddrop J leak U n) := by
  apply List.ext_getElem
  · simp [graddrop, permV, hp]
  intro c h1 h2
  have hc : c < n := by simpa [graddrop] using h1
  have hcp : c < p.length := by omega
  have hpc : p[c] < n := hlt _ (List.getElem_mem _)
  rw [permV_getElem]
  simp only [graddrop, List.getElem_map, List.getElem_range]
  rw [map_range_getD _ n _ hpc, col_map_permV J p c hcp, permV_getD p U c hcp 0,
    getD_congr_default U default 0 p[c] (by omega)]

theorem combine_col_perm' (m n : Nat) (J : Mat α) (hJ : MatWF J m n) (w : Vec α)
    (hw : w.length = m) (p : List Nat) (hp : p.length = n) (hlt : ∀ i ∈ p, i < n) :
    combine n (J.map (permV p)) w = permV p (combine n J w) := by
  have hJ' := matWF_map_permV J m n hJ p hp
  have hl := combine_length n J hJ.2 w
  apply vec_ext n _ _ (combine_length n _ hJ'.2 w) (by rw [permV_length, hp])
  intro k hk
  have hkp : k < p.length := by omega
  have hpk : p[k] < n := hlt _ (List.getElem_mem _)
  rw [combine_getD _ m n hJ' w hw k hk, permV_getD p _ k hkp 0,
    getD_congr_default _ default 0 p[k] (by omega), combine_getD J m n hJ w hw _ hpk]
  apply Finset.sum_congr rfl
  intro i _
  have hi : (i : Nat) < J.length := by rw [hJ.1]; exact i.2
  rw [getD_map_row _ J i hi [] [], permV_getD p _ k hkp 0,
    getD_congr_default _ default 0 p[k] (by rw [getD_row_length J m n hJ i i.2]; exact hpk)]

theorem gram_col_perm' (m n : Nat) (J : Mat α) (hJ : MatWF J m n) (p : List Nat)
    (hp : p.Perm (List.range n)) : gram (J.map (permV p)) = gram J := by
  simp only [gram, List.map_map]
  apply List.map_congr_left
  intro r hr
  apply List.map_congr_left
  intro r' hr'
  exact dot_permV p n hp r r' (hJ.2 r hr) (hJ.2 r' hr')

end colperm

/-! ### trimmed mean of an all-zero column -/

theorem sum_eq_zero_of_all_zero : ∀ (l : List α), (∀ x ∈ l, x = 0) → l.sum = 0
  | [], _ => rfl
  | a :: l, h => by
    rw [List.sum_cons, h a (by simp), sum_eq_zero_of_all_zero l (fun x hx => h x (by simp [hx])),
      add_zero]

theorem trimmedMeanCol_zero_col (b : Nat) (c : List α) (hc : ∀ x ∈ c, x = 0) :
    trimmedMeanCol b c = 0 := by
  simp only [trimmedMeanCol]
  rw [sum_eq_zero_of_all_zero, zero_div]
  intro x hx
  have h1 := List.mem_of_mem_take hx
  have h2 := List.mem_of_mem_drop h1
  rw [sortAsc, List.mem_mergeSort] at h2
  exact hc x h2

theorem trimmedMean_append_zero [Inhabited α] (b m n : Nat) (J : Mat α) (hJ : MatWF J m n) :
    trimmedMean b (n + 1) (J.map (· ++ [0])) = trimmedMean b n J ++ [0] := by
  simp only [trimmedMean, List.range_succ, List.map_append, List.map_cons, List.map_nil]
  congr 1
  · apply List.map_congr_left
    intro c hc
    have hc' : c < n := List.mem_range.mp hc
    congr 1
    simp only [col, List.map_map]
    apply List.map_congr_left
    intro r hr
    simp only [Function.comp]
    rw [List.getD_eq_getElem?_getD, List.getElem?_append_left (by rw [hJ.2 r hr]; exact hc'),
      List.getD_eq_getElem?_getD]
  · congr 1
    apply trimmedMeanCol_zero_col
    intro x hx
    simp only [col, List.map_map, List.mem_map, Function.comp] at hx
    obtain ⟨r, hr, rfl⟩ := hx
    rw [List.getD_eq_getElem?_getD, List.getElem?_append_right (by rw [hJ.2 r hr]), hJ.2 r hr]
    simp

end Tjd.Agg.Eqv
