/- UNIQUENESS of the minimum-norm point of the hull of the rows AS A VECTOR, its invariance under row
   permutations, the distance-to-target bound `|Jᵀa − g*|² ≤ |Jᵀa|² − |g*|²`, and the resulting bound on the
   difference of two Frank–Wolfe runs on row-permuted inputs.
   Helper for TjdProps/C10.lean.  All helper names carry the suffix `_mnu`. -/
import Mathlib.Algebra.Order.Field.Basic
import Mathlib.Algebra.Order.BigOperators.Ring.Finset
import Mathlib.Tactic.Ring
import Mathlib.Tactic.Linarith
import TjdModel.Agg.Spec2
import TjdLemmas.GramLemmas
import TjdLemmas.FWLemmas
import TjdLemmas.EquivLemmas
import TjdLemmas.MinNormTotal
namespace Tjd.Agg
open Tjd Matrix
set_option linter.unusedSectionVars false
set_option linter.unusedSimpArgs false
set_option linter.unusedVariables false

variable {α : Type} [Field α] [LinearOrder α] [IsStrictOrderedRing α]

/-! ### `Fin`-indexed statements -/

/-- `|Bᵀx − Bᵀx*|² ≤ |Bᵀx|² − |Bᵀx*|²` for `x` in the simplex and `x*` satisfying the variational
    inequality -/
theorem dist_le_gap_fn_mnu {m n : Nat} (B : Matrix (Fin m) (Fin n) α) (x xs : Fin m → α)
    (hx0 : ∀ i, 0 ≤ x i) (hx1 : ∑ i, x i = 1)
    (hcert : ∀ k, xs ⬝ᵥ (B * Bᵀ) *ᵥ xs ≤ ((B * Bᵀ) *ᵥ xs) k) :
    (x ᵥ* B - xs ᵥ* B) ⬝ᵥ (x ᵥ* B - xs ᵥ* B) ≤
      x ⬝ᵥ (B * Bᵀ) *ᵥ x - xs ⬝ᵥ (B * Bᵀ) *ᵥ xs := by
  have hrow : ∀ k, ((B * Bᵀ) *ᵥ xs) k = B k ⬝ᵥ (xs ᵥ* B) := by
    intro k
    rw [← mulVec_mulVec, mulVec_transpose]
    rfl
  simp only [hrow, qfF_gram] at hcert ⊢
  generalize hX : x ᵥ* B = X at *
  generalize hS : xs ᵥ* B = S at *
  have h2 : S ⬝ᵥ S ≤ X ⬝ᵥ S := by
    rw [← hX, ← dotProduct_mulVec]
    exact simplex_dot_ge x (B *ᵥ S) hx0 hx1 _ hcert
  have hD : (X - S) ⬝ᵥ (X - S) = X ⬝ᵥ X - 2 * (X ⬝ᵥ S) + S ⬝ᵥ S := by
    simp only [sub_dotProduct, dotProduct_sub]
    rw [dotProduct_comm S X]; ring
  rw [hD]
  linarith

/-- `|u − v|² ≤ 2|u − g|² + 2|v − g|²` -/
theorem sub_sq_le_mnu {n : Nat} (u v g : Fin n → α) :
    (u - v) ⬝ᵥ (u - v) ≤ 2 * ((u - g) ⬝ᵥ (u - g)) + 2 * ((v - g) ⬝ᵥ (v - g)) := by
  simp only [dotProduct, Pi.sub_apply]
  rw [Finset.mul_sum, Finset.mul_sum, ← Finset.sum_add_distrib]
  apply Finset.sum_le_sum
  intro i _
  nlinarith [sq_nonneg (u i + v i - 2 * g i)]

/-! ### list level -/

/-- two vectors of the same length at squared distance `≤ 0` are equal -/
theorem eq_of_dist_le_zero_mnu (n : Nat) (x y : Vec α) (hx : x.length = n) (hy : y.length = n)
    (h : dot (vsub x y) (vsub x y) ≤ 0) : x = y := by
  apply toFn_injective n x y hx hy
  rw [dot_eq_left n (vsub x y) _ (by rw [vsub_length _ _ (by omega), hx]),
    toFn_vsub n x y (by omega)] at h
  by_contra hne
  have h0 : toFn n x - toFn n y ≠ 0 := fun e => hne (sub_eq_zero.mp e)
  have := dotProduct_self_pos' _ h0
  linarith

theorem dist_triangle_mnu (n : Nat) (x x' g : Vec α) (hx : x.length = n) (hx' : x'.length = n)
    (hg : g.length = n) :
    dot (vsub x x') (vsub x x') ≤
      2 * dot (vsub x g) (vsub x g) + 2 * dot (vsub x' g) (vsub x' g) := by
  rw [dot_eq_left n (vsub x x') _ (by rw [vsub_length _ _ (by omega), hx]),
    dot_eq_left n (vsub x g) _ (by rw [vsub_length _ _ (by omega), hx]),
    dot_eq_left n (vsub x' g) _ (by rw [vsub_length _ _ (by omega), hx']),
    toFn_vsub n x x' (by omega), toFn_vsub n x g (by omega), toFn_vsub n x' g (by omega)]
  exact sub_sq_le_mnu _ _ _

/-- the simplex is closed under reordering -/
theorem inSimplex_perm_mnu {a b : Vec α} {m : Nat} (h : a.Perm b) (ha : InSimplex a m) :
    InSimplex b m :=
  ⟨by rw [← h.length_eq]; exact ha.1, fun x hx => ha.2.1 x (h.mem_iff.mpr hx),
    by rw [← h.sum_eq]; exact ha.2.2⟩

/-- `|Jᵀa − g*|² ≤ |Jᵀa|² − |g*|²` -/
theorem dist_le_gap_mnu (J : Mat α) (m n : Nat) (hJ : MatWF J m n) (a astar : Vec α)
    (ha : InSimplex a m) (hstar : minNormCheck (gram J) astar = true) :
    dot (vsub (combine n J a) (combine n J astar)) (vsub (combine n J a) (combine n J astar)) ≤
      qf (gram J) a - qf (gram J) astar := by
  have hGl : (gram J).length = m := by rw [gram_length, hJ.1]
  obtain ⟨hs, hcert⟩ := minNormCheck_fn (gram J) m hGl astar hstar
  obtain ⟨a1, a2, a3⟩ := inSimplex_fn ha
  rw [toMat_gram J m n hJ] at hcert
  have hl : (combine n J a).length = (combine n J astar).length := by
    rw [combine_length J m n hJ, combine_length J m n hJ]
  rw [dot_eq_left n (vsub (combine n J a) (combine n J astar)) _
      (by rw [vsub_length _ _ hl, combine_length J m n hJ]),
    toFn_vsub n _ _ hl, toFn_combine J m n hJ a a1, toFn_combine J m n hJ astar hs.1,
    qf_eq m _ a a1.le, qf_eq m _ astar hs.1.le, toMat_gram J m n hJ]
  exact dist_le_gap_fn_mnu (toMat m n J) (toFn m a) (toFn m astar) a2 a3 hcert

/-- the minimum-norm point of the hull is unique as a vector -/
theorem minnorm_unique_mnu (J : Mat α) (m n : Nat) (hJ : MatWF J m n) (a b : Vec α)
    (ha : minNormCheck (gram J) a = true) (hb : minNormCheck (gram J) b = true) :
    combine n J a = combine n J b := by
  have hGl : (gram J).length = m := by rw [gram_length, hJ.1]
  have sa := (minNormCheck_fn (gram J) m hGl a ha).1
  have sb := (minNormCheck_fn (gram J) m hGl b hb).1
  have d1 := dist_le_gap_mnu J m n hJ a b sa hb
  have d2 := (minnorm_cert (gram J) m (gram_symmSquare J m n hJ) (gram_psd J m n hJ) a ha).2 b sb
  exact eq_of_dist_le_zero_mnu n _ _ (combine_length J m n hJ a) (combine_length J m n hJ b)
    (by linarith)

/-- ... and does not depend on the order of the rows -/
theorem minnorm_perm_mnu [Inhabited α] (J : Mat α) (m n : Nat) (hJ : MatWF J m n) (p : List Nat)
    (hp : p.Perm (List.range m)) (a a' : Vec α) (h : minNormCheck (gram J) a = true)
    (h' : minNormCheck (gram (permV p J)) a' = true) :
    combine n (permV p J) a' = combine n J a := by
  have hJ' := Eqv.permV_matWF J m n hJ p hp
  obtain ⟨ha, hmin⟩ :=
    minnorm_cert (gram J) m (gram_symmSquare J m n hJ) (gram_psd J m n hJ) a h
  obtain ⟨ha', hmin'⟩ := minnorm_cert (gram (permV p J)) m (gram_symmSquare _ m n hJ')
    (gram_psd _ m n hJ') a' h'
  -- the weights moved back
  obtain ⟨a'', hl'', he⟩ := Eqv.permV_surj m p hp a' ha'.1
  have hperm'' : a'.Perm a'' := by
    rw [← he]; exact Eqv.permV_perm p a'' (by rw [hl'']; exact hp)
  have ha'' := inSimplex_perm_mnu hperm'' ha'
  have hpa : InSimplex (permV p a) m :=
    inSimplex_perm_mnu (Eqv.permV_perm p a (by rw [ha.1]; exact hp)).symm ha
  have e1 : combine n (permV p J) a' = combine n J a'' := by
    rw [← he]; exact Eqv.combine_row_perm' J m n hJ a'' hl'' p hp
  have e2 : combine n (permV p J) (permV p a) = combine n J a :=
    Eqv.combine_row_perm' J m n hJ a ha.1 p hp
  have q1 := hmin' _ hpa
  rw [qf_gram _ m n hJ' a' ha'.1, qf_gram _ m n hJ' _ hpa.1, e1, e2, ← qf_gram J m n hJ a'' hl'',
    ← qf_gram J m n hJ a ha.1] at q1
  have d := dist_le_gap_mnu J m n hJ a'' a ha'' h
  rw [e1]
  exact eq_of_dist_le_zero_mnu n _ _ (combine_length J m n hJ a'') (combine_length J m n hJ a)
    (by linarith)

/-- two Frank–Wolfe runs (`epsilon = 0`, `K ≥ 1` iterations) on row-permuted inputs end within
    `|x − x'|² ≤ 32 s² / (K + 2)` of each other -/
theorem mgda_perm_defect_mnu [Inhabited α] (J : Mat α) (m n : Nat) (hm : 0 < m) (hJ : MatWF J m n)
    (p : List Nat) (hp : p.Perm (List.range m)) (s2 : α)
    (hs : ∀ v : Vec α, v.length = m → qf (gram J) v ≤ s2 * dot v v)
    (hs' : ∀ v : Vec α, v.length = m → qf (gram (permV p J)) v ≤ s2 * dot v v) (K : Nat)
    (hK : 1 ≤ K) :
    let x := combine n J (mgdaWeights (gram J) m (1 / (m : α)) 0 K).1
    let x' := combine n (permV p J) (mgdaWeights (gram (permV p J)) m (1 / (m : α)) 0 K).1
    dot (vsub x x') (vsub x x') ≤ 32 * s2 / ((K : α) + 2) := by
  intro x x'
  have hJ' := Eqv.permV_matWF J m n hJ p hp
  have hG := gram_symmSquare J m n hJ
  have hP := gram_psd J m n hJ
  have hG' := gram_symmSquare (permV p J) m n hJ'
  have hP' := gram_psd (permV p J) m n hJ'
  obtain ⟨as, _, _, hc, _⟩ := minNorm_complete_mnt J m n hJ hm
  obtain ⟨as', _, _, hc', _⟩ := minNorm_complete_mnt (permV p J) m n hJ' hm
  have hsa := (minnorm_cert (gram J) m hG hP as hc).1
  have hsa' := (minnorm_cert (gram (permV p J)) m hG' hP' as' hc').1
  have r := mgda_rate (gram J) m hm hG hP s2 hs K hK as hsa
  have r' := mgda_rate (gram (permV p J)) m hm hG' hP' s2 hs' K hK as' hsa'
  have sK := (mgda_simplex_mono (gram J) m hm hG hP 0 K).1
  have sK' := (mgda_simplex_mono (gram (permV p J)) m hm hG' hP' 0 K).1
  have d := dist_le_gap_mnu J m n hJ _ as sK hc
  have d' := dist_le_gap_mnu (permV p J) m n hJ' _ as' sK' hc'
  rw [minnorm_perm_mnu J m n hJ p hp as as' hc hc'] at d'
  have t := dist_triangle_mnu n x x' (combine n J as) (combine_length J m n hJ _)
    (combine_length (permV p J) m n hJ' _) (combine_length J m n hJ as)
  have e : 2 * (8 * s2 / ((K : α) + 2)) + 2 * (8 * s2 / ((K : α) + 2)) =
      32 * s2 / ((K : α) + 2) := by ring
  have d0 : dot (vsub x (combine n J as)) (vsub x (combine n J as)) ≤ 8 * s2 / ((K : α) + 2) :=
    d.trans r
  have d0' : dot (vsub x' (combine n J as)) (vsub x' (combine n J as)) ≤
      8 * s2 / ((K : α) + 2) := d'.trans r'
  linarith

end Tjd.Agg
