/- helper lemmas for TjdProps/C02.lean -/
import Mathlib.Algebra.Ring.Defs
import TjdModel.Autojac.MtlSpec
namespace Tjd.Autojac

end Tjd.Autojac
