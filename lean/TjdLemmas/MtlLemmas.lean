/- helper lemmas for TjdProps/C02.lean and TjdProps/C20.lean -/
import Mathlib.Algebra.Ring.Defs
import TjdModel.Autojac.MtlSpec
import TjdLemmas.AutojacLemmas
namespace Tjd.Autojac
open Tjd

/-! ### rejected calls (no algebra needed) -/

section
variable {α : Type}

theorem accumulateT_rejected (E : Engine α) [Add α] (g : GDict α) (h : Grads α)
    (hbad : ∃ kv ∈ g, E.expectsGrad kv.1 = false) :
    accumulateT E g h = (h, some Err.value) := by
  obtain ⟨kv, hkv, hb⟩ := hbad
  have hall : ¬ (g.all (fun kv => E.expectsGrad kv.1) = true) := by
    rw [List.all_eq_true]
    intro hall
    have := hall kv hkv
    rw [hb] at this
    cases this
  unfold accumulateT
  rw [if_neg hall]

/-- whenever `Accumulate` reports an error the heap is the one it was given -/
theorem accumulateT_err_unchanged (E : Engine α) [Add α] (g : GDict α) (h : Grads α) (e : Err)
    (herr : (accumulateT E g h).2 = some e) : (accumulateT E g h).1 = h := by
  unfold accumulateT at herr ⊢
  split
  · rename_i hall
    rw [if_pos hall] at herr
    cases herr
  · rfl

theorem aggregateT_ok_keys (E : Engine α) (A : Mat α → Except Err (Vec α)) (keyOrder : List Key)
    (j : JDict α) (g : GDict α) (h : aggregateT E A keyOrder j = .ok g) :
    g.map (·.1) = keyOrder := by
  cases keyOrder with
  | nil =>
    simp [aggregateT, pure, Except.pure] at h
    subst h; rfl
  | cons k ks =>
    unfold aggregateT at h
    simp only [List.isEmpty_cons, Bool.false_eq_true, if_false] at h
    cases hA : A (unite (((k :: ks).map fun k => lookupD j k []).headD []).length
        ((k :: ks).map fun k => lookupD j k [])) with
    | error e => rw [hA] at h; simp [bind, Except.bind] at h
    | ok v =>
      rw [hA] at h
      by_cases hl : v.length = ((k :: ks).map E.numel).sum
      · simp only [bind, Except.bind, hl, ne_eq, not_true_eq_false, if_false, pure, Except.pure] at h
        injection h with h
        rw [← h]
        exact zip_splitCols_keys E.numel (k :: ks) v
      · simp only [List.map_cons, List.sum_cons] at hl
        simp [bind, Except.bind, hl, throw, throwThe, MonadExceptOf.throw] at h

variable [Zero α] [One α] [Add α] [Mul α]

theorem go_rejected (E : Engine α) (tensors inputs : List Key)
    (A : Mat α → Except Err (Vec α)) (chunk : Option Nat) (retain : Bool) (h : Grads α) (e : Err)
    (herr : (backward.go E tensors inputs A retain h chunk).err = some e) :
    (backward.go E tensors inputs A retain h chunk).grads = h := by
  unfold backward.go at herr ⊢
  cases hte : tensors.isEmpty with
  | true => simp only [if_true]
  | false =>
    cases hd : hasDup tensors with
    | true => simp only [Bool.false_eq_true, if_true, if_false]
    | false =>
      simp only [hte, hd, Bool.false_eq_true, if_false] at herr ⊢
      cases hj : jacT E tensors inputs chunk retain (diagonalizeT E tensors (initT E tensors)) with
      | error e' => rfl
      | ok js =>
        obtain ⟨j1, sweeps⟩ := js
        simp only [hj] at herr ⊢
        cases hg : aggregateT E A inputs j1 with
        | error e' => rfl
        | ok g1 =>
          simp only [hg] at herr ⊢
          exact accumulateT_err_unchanged E g1 h e herr

theorem go_bad_param (E : Engine α) (tensors inputs : List Key)
    (A : Mat α → Except Err (Vec α)) (chunk : Option Nat) (retain : Bool) (h : Grads α)
    (bad : Key) (hb : bad ∈ inputs) (hbad : E.expectsGrad bad = false) :
    (backward.go E tensors inputs A retain h chunk).err ≠ none ∧
    (backward.go E tensors inputs A retain h chunk).grads = h := by
  unfold backward.go
  cases hte : tensors.isEmpty with
  | true => simp
  | false =>
    cases hd : hasDup tensors with
    | true => simp
    | false =>
      simp only [Bool.false_eq_true, if_false]
      cases hj : jacT E tensors inputs chunk retain (diagonalizeT E tensors (initT E tensors)) with
      | error e' => exact ⟨by simp, rfl⟩
      | ok js =>
        obtain ⟨j1, sweeps⟩ := js
        simp only []
        cases hg : aggregateT E A inputs j1 with
        | error e' => exact ⟨by simp, rfl⟩
        | ok g1 =>
          simp only []
          have hkeys := aggregateT_ok_keys E A inputs j1 g1 hg
          have hmem : bad ∈ g1.map (·.1) := by rw [hkeys]; exact hb
          obtain ⟨kv, hkv, hk⟩ := List.mem_map.mp hmem
          have hrej := accumulateT_rejected E g1 h ⟨kv, hkv, by rw [hk]; exact hbad⟩
          rw [hrej]
          exact ⟨by simp, rfl⟩

/-! ### `mtl_backward`: the argument checks -/

/-- everything `mtl_backward` does after the argument checks -/
def mtlCore (E : Engine α) (losses features : List Key) (tps : List (List Key)) (shared : List Key)
    (A : Mat α → Except Err (Vec α)) (chunk : Option Int) (retain : Bool) (h : Grads α) :
    Outcome α :=
  match runTasks E features (List.zip tps losses) h with
  | (h1, .error e) => ⟨h1, some e, []⟩
  | (h1, .ok ds) =>
    match jacT E features shared (chunk.map Int.toNat) retain (stackT E ds) with
    | .error e => ⟨h1, some e, []⟩
    | .ok (j1, sweeps) =>
      match aggregateT E A shared j1 with
      | .error e => ⟨h1, some e, sweeps⟩
      | .ok g1 => ⟨(accumulateT E g1 h1).1, (accumulateT E g1 h1).2, sweeps⟩

/-- all argument checks pass -/
def MtlChecks (E : Engine α) (ndim : Key → Nat) (losses features : List Key)
    (tps : List (List Key)) (shared : List Key) (chunk : Option Int) : Prop :=
  (∀ c, chunk = some c → 0 < c) ∧ features ≠ [] ∧ (∀ p ∈ tps.flatten, p ∉ shared) ∧
  (∀ l ∈ losses, ndim l = 0) ∧ losses ≠ [] ∧ losses.length = tps.length ∧
  (∀ p ∈ shared ++ tps.flatten, E.expectsGrad p = true) ∧
  (∀ tp ∈ tps, (tp ++ features).Nodup) ∧ features.Nodup ∧ shared.Nodup

/-- `mtl_backward` after the chunk-size check -/
def mtlAfterChunk (E : Engine α) (ndim : Key → Nat) (losses features : List Key)
    (tps : List (List Key)) (shared : List Key) (A : Mat α → Except Err (Vec α))
    (chunk : Option Int) (retain : Bool) (h : Grads α) : Outcome α :=
  if features.isEmpty then ⟨h, some Err.value, []⟩
  else if tps.flatten.any (shared.contains ·) then ⟨h, some Err.value, []⟩
  else if losses.any (fun l => ndim l > 0) then ⟨h, some Err.value, []⟩
  else if losses.isEmpty then ⟨h, some Err.value, []⟩
  else if losses.length ≠ tps.length then ⟨h, some Err.value, []⟩
  else if !(shared ++ tps.flatten).all E.expectsGrad then ⟨h, some Err.value, []⟩
  else if tps.any (fun tp => hasDup (tp ++ features)) then ⟨h, some Err.value, []⟩
  else if hasDup features || hasDup shared then ⟨h, some Err.value, []⟩
  else mtlCore E losses features tps shared A chunk retain h

theorem mtlBackward_chunk_bad (E : Engine α) (ndim : Key → Nat) (losses features : List Key)
    (tps : List (List Key)) (shared : List Key) (A : Mat α → Except Err (Vec α))
    (chunk : Option Int) (retain : Bool) (h : Grads α) (hc : ∃ c, chunk = some c ∧ c ≤ 0) :
    mtlBackward E ndim losses features tps shared A chunk retain h = ⟨h, some Err.value, []⟩ := by
  obtain ⟨c, rfl, hc⟩ := hc
  unfold mtlBackward
  simp [hc]

theorem mtlBackward_chunk_ok (E : Engine α) (ndim : Key → Nat) (losses features : List Key)
    (tps : List (List Key)) (shared : List Key) (A : Mat α → Except Err (Vec α))
    (chunk : Option Int) (retain : Bool) (h : Grads α) (hc : ∀ c, chunk = some c → 0 < c) :
    mtlBackward E ndim losses features tps shared A chunk retain h =
      mtlAfterChunk E ndim losses features tps shared A chunk retain h := by
  cases chunk with
  | none => rfl
  | some c =>
    have hc' : ¬ c ≤ 0 := by have := hc c rfl; omega
    unfold mtlBackward
    simp only [hc', decide_false, Bool.false_eq_true, if_false]
    rfl

theorem mtlAfterChunk_cases (E : Engine α) (ndim : Key → Nat) (losses features : List Key)
    (tps : List (List Key)) (shared : List Key) (A : Mat α → Except Err (Vec α))
    (chunk : Option Int) (retain : Bool) (h : Grads α) (h1' : ∀ c, chunk = some c → 0 < c) :
    ∃ o, mtlAfterChunk E ndim losses features tps shared A chunk retain h = o ∧
    ((¬ MtlChecks E ndim losses features tps shared chunk ∧ o = ⟨h, some Err.value, []⟩) ∨
     (MtlChecks E ndim losses features tps shared chunk ∧
        o = mtlCore E losses features tps shared A chunk retain h)) := by
  refine ⟨_, rfl, ?_⟩
  unfold mtlAfterChunk MtlChecks
  split
  · rename_i h2
    left
    refine ⟨?_, rfl⟩
    rintro ⟨-, hf, -⟩
    exact hf (List.isEmpty_iff.mp h2)
  rename_i h2
  have h2' : features ≠ [] := fun hf => h2 (List.isEmpty_iff.mpr hf)
  split
  · rename_i h3
    left
    refine ⟨?_, rfl⟩
    rintro ⟨-, -, ho, -⟩
    rw [List.any_eq_true] at h3
    obtain ⟨p, hp, hps⟩ := h3
    exact ho p hp (by simpa using hps)
  rename_i h3
  have h3' : ∀ p ∈ tps.flatten, p ∉ shared := by
    intro p hp hps
    apply h3
    rw [List.any_eq_true]
    exact ⟨p, hp, by simpa using hps⟩
  split
  · rename_i h4
    left
    refine ⟨?_, rfl⟩
    rintro ⟨-, -, -, hs, -⟩
    rw [List.any_eq_true] at h4
    obtain ⟨l, hl, hd⟩ := h4
    have := hs l hl
    simp at hd
    omega
  rename_i h4
  have h4' : ∀ l ∈ losses, ndim l = 0 := by
    intro l hl
    rcases Nat.eq_zero_or_pos (ndim l) with h0 | hpos
    · exact h0
    · exfalso
      apply h4
      rw [List.any_eq_true]
      exact ⟨l, hl, by simpa using hpos⟩
  split
  · rename_i h5
    left
    refine ⟨?_, rfl⟩
    rintro ⟨-, -, -, -, hl, -⟩
    exact hl (List.isEmpty_iff.mp h5)
  rename_i h5
  have h5' : losses ≠ [] := fun hf => h5 (List.isEmpty_iff.mpr hf)
  split
  · rename_i h6
    left
    refine ⟨?_, rfl⟩
    rintro ⟨-, -, -, -, -, hl, -⟩
    exact h6 hl
  rename_i h6
  have h6' : losses.length = tps.length := by omega
  split
  · rename_i h7
    left
    refine ⟨?_, rfl⟩
    rintro ⟨-, -, -, -, -, -, he, -⟩
    have : (shared ++ tps.flatten).all E.expectsGrad = true := List.all_eq_true.mpr he
    rw [this] at h7
    cases h7
  rename_i h7
  have h7' : ∀ p ∈ shared ++ tps.flatten, E.expectsGrad p = true := by
    apply List.all_eq_true.mp
    cases hh : (shared ++ tps.flatten).all E.expectsGrad with
    | true => rfl
    | false => rw [hh] at h7; exact absurd rfl h7
  split
  · rename_i h8
    left
    refine ⟨?_, rfl⟩
    rintro ⟨-, -, -, -, -, -, -, hn, -⟩
    rw [List.any_eq_true] at h8
    obtain ⟨tp, htp, hd⟩ := h8
    have := (hasDup_eq_false_iff _).mpr (hn tp htp)
    rw [this] at hd
    cases hd
  rename_i h8
  have h8' : ∀ tp ∈ tps, (tp ++ features).Nodup := by
    intro tp htp
    apply (hasDup_eq_false_iff _).mp
    cases hh : hasDup (tp ++ features) with
    | false => rfl
    | true =>
      exfalso
      apply h8
      rw [List.any_eq_true]
      exact ⟨tp, htp, hh⟩
  split
  · rename_i h9
    left
    refine ⟨?_, rfl⟩
    rintro ⟨-, -, -, -, -, -, -, -, hf, hs⟩
    rw [(hasDup_eq_false_iff _).mpr hf, (hasDup_eq_false_iff _).mpr hs] at h9
    cases h9
  rename_i h9
  have h9' : features.Nodup ∧ shared.Nodup := by
    rw [← hasDup_eq_false_iff, ← hasDup_eq_false_iff]
    cases hh1 : hasDup features <;> cases hh2 : hasDup shared <;> simp [hh1, hh2] at h9 ⊢
  right
  exact ⟨⟨h1', h2', h3', h4', h5', h6', h7', h8', h9'.1, h9'.2⟩, rfl⟩

theorem mtlBackward_cases (E : Engine α) (ndim : Key → Nat) (losses features : List Key)
    (tps : List (List Key)) (shared : List Key) (A : Mat α → Except Err (Vec α))
    (chunk : Option Int) (retain : Bool) (h : Grads α) :
    (¬ MtlChecks E ndim losses features tps shared chunk ∧
      mtlBackward E ndim losses features tps shared A chunk retain h = ⟨h, some Err.value, []⟩) ∨
    (MtlChecks E ndim losses features tps shared chunk ∧
      mtlBackward E ndim losses features tps shared A chunk retain h =
        mtlCore E losses features tps shared A chunk retain h) := by
  by_cases hc : ∃ c, chunk = some c ∧ c ≤ 0
  · left
    refine ⟨?_, mtlBackward_chunk_bad E ndim losses features tps shared A chunk retain h hc⟩
    rintro ⟨hp, -⟩
    obtain ⟨c, hc1, hc2⟩ := hc
    have := hp c hc1
    omega
  · have hc' : ∀ c, chunk = some c → 0 < c := by
      intro c hcc
      by_cases h0 : 0 < c
      · exact h0
      · exact absurd ⟨c, hcc, by omega⟩ hc
    rw [mtlBackward_chunk_ok E ndim losses features tps shared A chunk retain h hc']
    obtain ⟨o, ho, h'⟩ := mtlAfterChunk_cases E ndim losses features tps shared A chunk retain h hc'
    rw [ho]
    exact h'

end

/-! ### dictionaries of the form `ks.map fun k => (k, G k)` -/

section
variable {β : Type}

theorem zip_map_self (ks : List Key) (G : Key → β) :
    List.zip ks (ks.map G) = ks.map fun k => (k, G k) := by
  induction ks with
  | nil => rfl
  | cons a ks ih => simp [ih]

theorem find?_map_self (ks : List Key) (G : Key → β) (k : Key) :
    (ks.map fun i => (i, G i)).find? (·.1 == k) = if k ∈ ks then some (k, G k) else none := by
  induction ks with
  | nil => simp
  | cons a ks ih =>
    rw [List.map_cons, List.find?_cons]
    by_cases h : a = k
    · subst h; simp
    · have hb : (a == k) = false := by simpa using h
      simp only [hb, ih, List.mem_cons]
      have : ¬ k = a := fun h' => h h'.symm
      simp [this]

theorem selectT_map_self (keys ks : List Key) (G : Key → β) (hsub : ∀ k ∈ keys, k ∈ ks) :
    selectT keys (ks.map fun i => (i, G i)) = keys.map fun k => (k, G k) := by
  unfold selectT
  induction keys with
  | nil => rfl
  | cons a keys ih =>
    have ha : a ∈ ks := hsub a (by simp)
    rw [List.filterMap_cons, find?_map_self, if_pos ha]
    simp only [List.map_cons]
    rw [ih (fun k hk => hsub k (by simp [hk]))]

theorem accumulate_fold_not_mem {α : Type} [Add α] (g : GDict α) (h : Grads α) (k : Key)
    (hk : k ∉ g.map (·.1)) :
    (g.foldl (fun (h : Grads α) (kv : Key × Vec α) =>
        match h kv.1 with
        | some old => h.set kv.1 (some (vadd old kv.2))
        | none => h.set kv.1 (some kv.2)) h) k = h k := by
  induction g generalizing h with
  | nil => rfl
  | cons a g ih =>
    rw [List.map_cons, List.mem_cons, not_or] at hk
    rw [List.foldl_cons, ih _ hk.2]
    cases h a.1 <;> simp [Grads.set, hk.1]

theorem accumulateT_not_mem {α : Type} [Add α] (E : Engine α) (g : GDict α) (h : Grads α) (k : Key)
    (hk : k ∉ g.map (·.1)) : (accumulateT E g h).1 k = h k := by
  unfold accumulateT
  split
  · exact accumulate_fold_not_mem g h k hk
  · rfl

end

/-! ### the task transforms -/

section
variable {α : Type} [Semiring α]

theorem lossGrad_eq (E : Engine α) (l i : Key) (hl : E.numel l = 1) :
    materialize E i (E.vjp1 [l] [onesV (E.numel l)] i) = lossGrad E l i := by
  unfold lossGrad autogradDeposit
  simp [hl, splitCols, onesV]

theorem gradT_task (E : Engine α) (l : Key) (ins : List Key) (hne : ins ≠ [])
    (hcall : E.callOk [l] ins = true) (hl : E.numel l = 1) :
    gradT E [l] ins (initT E [l]) = .ok (ins.map fun i => (i, lossGrad E l i)) := by
  have h1 : ins.isEmpty = false := by cases ins <;> simp_all
  have hlk : lookupD (initT E [l]) l [] = onesV (E.numel l) := lookupD_initT E [l] l (by simp)
  unfold gradT
  simp only [h1, Bool.false_eq_true, if_false, List.isEmpty_cons, Engine.vjp, hcall, if_true,
    List.map_cons, List.map_nil, hlk, bind, Except.bind, pure, Except.pure]
  rw [zip_map_self]
  congr 1
  apply List.map_congr_left
  intro i _
  rw [lossGrad_eq E l i hl]

theorem taskAccum_cons (E : Engine α) (tp : List Key) (l : Key) (rest : List (List Key × Key))
    (p : Key) (g : Option (Vec α)) :
    taskAccum E ((tp, l) :: rest) p g =
      taskAccum E rest p (if p ∈ tp then accum g (lossGrad E l p) else g) := by
  unfold taskAccum
  rw [List.foldl_cons]

theorem taskT_spec (E : Engine α) (features tp : List Key) (l : Key) (h : Grads α)
    (hne : features ≠ []) (hcall : E.callOk [l] (tp ++ features) = true) (hl : E.numel l = 1)
    (hnd : tp.Nodup) (hexp : ∀ p ∈ tp, E.expectsGrad p = true) :
    ∃ h1, taskT E features tp l h = (h1, .ok (features.map fun f => (f, lossGrad E l f))) ∧
      ∀ k, h1 k = if k ∈ tp then accum (h k) (lossGrad E l k) else h k := by
  have hne' : tp ++ features ≠ [] := by simp [hne]
  have hkeys : (tp.map fun k => (k, lossGrad E l k)).map (·.1) = tp := by
    simp [Function.comp_def]
  have hacc := accumulateT_ok E (tp.map fun k => (k, lossGrad E l k)) h
    (by rw [hkeys]; exact hexp) (by rw [hkeys]; exact hnd)
  refine ⟨(accumulateT E (tp.map fun k => (k, lossGrad E l k)) h).1, ?_, ?_⟩
  · unfold taskT
    simp only [gradT_task E l (tp ++ features) hne' hcall hl]
    rw [selectT_map_self tp (tp ++ features) _ (fun k hk => by simp [hk]),
      selectT_map_self features (tp ++ features) _ (fun k hk => by simp [hk])]
    simp only [hacc.1]
  · intro k
    have := hacc.2 k
    rw [hkeys] at this
    rw [this]
    by_cases hk : k ∈ tp
    · rw [if_pos hk, if_pos hk, lookupD_map_self (fun k => lossGrad E l k) tp k [] hk]
    · rw [if_neg hk, if_neg hk]

/-- the hypotheses each task must satisfy for its transform to succeed -/
def TaskOk (E : Engine α) (features : List Key) (tl : List Key × Key) : Prop :=
  E.callOk [tl.2] (tl.1 ++ features) = true ∧ E.numel tl.2 = 1 ∧ tl.1.Nodup ∧
    ∀ p ∈ tl.1, E.expectsGrad p = true

theorem runTasks_spec (E : Engine α) (features : List Key) (hne : features ≠ [])
    (tasks : List (List Key × Key)) (h : Grads α) (hok : ∀ tl ∈ tasks, TaskOk E features tl) :
    ∃ h1, runTasks E features tasks h =
        (h1, .ok (tasks.map fun tl => features.map fun f => (f, lossGrad E tl.2 f))) ∧
      ∀ k, h1 k = taskAccum E tasks k (h k) := by
  induction tasks generalizing h with
  | nil => exact ⟨h, rfl, fun k => rfl⟩
  | cons tl rest ih =>
    obtain ⟨tp, l⟩ := tl
    obtain ⟨hcall, hl, hnd, hexp⟩ := hok (tp, l) (by simp)
    obtain ⟨h1, ht, hh1⟩ := taskT_spec E features tp l h hne hcall hl hnd hexp
    obtain ⟨h2, hr, hh2⟩ := ih h1 (fun tl' htl => hok tl' (by simp [htl]))
    refine ⟨h2, ?_, ?_⟩
    · unfold runTasks
      simp only [ht, hr, List.map_cons]
    · intro k
      rw [hh2 k, hh1 k, taskAccum_cons]

theorem taskAccum_unlisted' (E : Engine α) (tasks : List (List Key × Key)) (p : Key)
    (g : Option (Vec α)) (hp : ∀ tl ∈ tasks, p ∉ tl.1) : taskAccum E tasks p g = g := by
  induction tasks generalizing g with
  | nil => rfl
  | cons tl rest ih =>
    obtain ⟨tp, l⟩ := tl
    have h1 : p ∉ tp := hp (tp, l) (by simp)
    rw [taskAccum_cons, if_neg h1]
    exact ih g (fun tl' htl => hp tl' (by simp [htl]))

/-! ### Stack and Jac on the task dictionaries -/

theorem lookupD_stack_tasks {τ : Type} (E : Engine α) (features : List Key) (ts : List τ)
    (G : τ → Key → Vec α) (hts : ts ≠ []) (f : Key) (hf : f ∈ features) :
    lookupD (stackT E (ts.map fun t => features.map fun f => (f, G t f))) f [] =
      ts.map fun t => G t f := by
  have hk : f ∈ unionKeys (ts.map fun t => features.map fun f => (f, G t f)) := by
    rw [mem_unionKeys]
    cases ts with
    | nil => exact absurd rfl hts
    | cons t ts =>
      exact ⟨features.map fun f => (f, G t f), List.mem_cons_self, G t f,
        List.mem_map.mpr ⟨f, hf, rfl⟩⟩
  unfold stackT
  rw [lookupD_map_self _ _ f [] hk, List.map_map]
  apply List.map_congr_left
  intro t _
  simp only [Function.comp]
  rw [find?_map_self, if_pos hf]

theorem cotRow_stack_tasks {τ : Type} (E : Engine α) (features : List Key) (ts : List τ)
    (G : τ → Key → Vec α) (r : Nat) (hr : r < ts.length) :
    cotRow features (stackT E (ts.map fun t => features.map fun f => (f, G t f))) r =
      features.map fun f => G ts[r] f := by
  have hts : ts ≠ [] := by intro h0; rw [h0] at hr; simp at hr
  unfold cotRow
  apply List.map_congr_left
  intro f hf
  rw [lookupD_stack_tasks E features ts G hts f hf]
  simp [List.getD_eq_getElem?_getD, hr]

theorem mtlRow_length (E : Engine α) (hE : E.WF) (features shared : List Key) (l : Key) :
    (mtlRow E features shared l).length = (shared.map E.numel).sum := by
  unfold mtlRow
  rw [← List.flatMap_def]
  exact length_flatMap_eq E.numel shared _ (fun s _ => materialize_vjp1_length E hE features _ s)

theorem jacRows_stack_tasks (E : Engine α) (features shared : List Key)
    (tasks : List (List Key × Key)) :
    (List.range tasks.length).map (jacRow E features shared
        (stackT E (tasks.map fun tl => features.map fun f => (f, lossGrad E tl.2 f)))) =
      mtlJac E (tasks.map (·.2)) features shared := by
  unfold mtlJac
  apply List.ext_getElem
  · simp
  · intro i h1 h2
    have hi : i < tasks.length := by simpa using h1
    simp only [List.getElem_map, List.getElem_range]
    unfold jacRow mtlRow
    rw [cotRow_stack_tasks E features tasks (fun tl f => lossGrad E tl.2 f) i hi, List.flatMap_def]

/-! ### the whole pipeline after the checks -/

theorem mtlCore_not_shared (E : Engine α) (losses features : List Key) (tps : List (List Key))
    (shared : List Key) (A : Mat α → Except Err (Vec α)) (chunk : Option Int) (retain : Bool)
    (h h1 : Grads α) (ds : List (GDict α))
    (hrun : runTasks E features (List.zip tps losses) h = (h1, .ok ds))
    (k : Key) (hk : k ∉ shared) :
    (mtlCore E losses features tps shared A chunk retain h).grads k = h1 k := by
  unfold mtlCore
  simp only [hrun]
  cases hj : jacT E features shared (chunk.map Int.toNat) retain (stackT E ds) with
  | error e => rfl
  | ok js =>
    obtain ⟨j1, sweeps⟩ := js
    simp only []
    cases hg : aggregateT E A shared j1 with
    | error e => rfl
    | ok g1 =>
      simp only []
      apply accumulateT_not_mem
      rw [aggregateT_ok_keys E A shared j1 g1 hg]
      exact hk

theorem mtlCore_spec (E : Engine α) (hE : E.WF) (losses features : List Key) (tps : List (List Key))
    (shared : List Key) (A : Mat α → Except Err (Vec α)) (chunk : Option Int) (retain : Bool)
    (h : Grads α) (hfe : features ≠ []) (hs : shared ≠ []) (hlo : losses ≠ [])
    (hlen : losses.length = tps.length) (hc : ∀ c, chunk = some c → 0 < c)
    (hnd : shared.Nodup) (hfrg : ∀ f ∈ features, E.requiresGrad f = true)
    (hsh : ∀ p ∈ shared, E.expectsGrad p = true ∧ E.requiresGrad p = true)
    (hno : ∀ tp ∈ tps, ∀ p ∈ tp, p ∉ shared)
    (hok : ∀ tl ∈ List.zip tps losses, TaskOk E features tl)
    (v : Vec α) (hA : A (mtlJac E losses features shared) = .ok v)
    (hv : v.length = (shared.map E.numel).sum) :
    (mtlCore E losses features tps shared A chunk retain h).err = none ∧
    ∀ k, (mtlCore E losses features tps shared A chunk retain h).grads k =
      if k ∈ shared then accum (h k) (sliceOf E.numel shared k v)
      else taskAccum E (List.zip tps losses) k (h k) := by
  obtain ⟨h1, hrun, hh1⟩ := runTasks_spec E features hfe (List.zip tps losses) h hok
  have hsnd : (List.zip tps losses).map (·.2) = losses := by
    apply List.map_snd_zip
    omega
  have hzlen : (List.zip tps losses).length = losses.length := by
    rw [List.length_zip]; omega
  have hlpos : 0 < losses.length := List.length_pos_iff.mpr hlo
  have hhead : features.headD 0 ∈ features := by
    cases features with
    | nil => exact absurd rfl hfe
    | cons a t => simp
  have hm : (lookupD (stackT E ((List.zip tps losses).map fun tl =>
      features.map fun f => (f, lossGrad E tl.2 f))) (features.headD 0) []).length =
      (List.zip tps losses).length := by
    rw [lookupD_stack_tasks E features (List.zip tps losses) (fun tl f => lossGrad E tl.2 f)
      (by intro h0; rw [h0] at hzlen; simp at hzlen; omega) _ hhead]
    simp
  obtain ⟨sw, hjac⟩ := jacT_ok E features shared (chunk.map Int.toNat) retain
    (stackT E ((List.zip tps losses).map fun tl => features.map fun f => (f, lossGrad E tl.2 f)))
    hs hfe (by rw [hm, hzlen]; exact hlpos) (toNat_chunk_pos chunk hc)
    (callOk_of E features shared hfrg (fun i hi => (hsh i hi).2))
  rw [hm, jacRows_stack_tasks, hsnd] at hjac
  have hrows : ∀ row ∈ mtlJac E losses features shared, row.length = (shared.map E.numel).sum := by
    intro row hrow
    unfold mtlJac at hrow
    obtain ⟨l, _, rfl⟩ := List.mem_map.mp hrow
    exact mtlRow_length E hE features shared l
  have hagg := aggregateT_ok E A shared
    (List.zip shared (subMatrices (shared.map E.numel) (mtlJac E losses features shared))) hs v
    (by rw [unite_after_jac E.numel shared _ hnd hs hrows]; exact hA) hv
  have hkeys := zip_splitCols_keys E.numel shared v
  have hacc := accumulateT_ok E (List.zip shared (splitCols (shared.map E.numel) v)) h1
    (by rw [hkeys]; exact fun k hk => (hsh k hk).1) (by rw [hkeys]; exact hnd)
  unfold mtlCore
  simp only [hrun, hjac, hagg]
  refine ⟨hacc.1, ?_⟩
  intro k
  have := hacc.2 k
  rw [hkeys] at this
  rw [this]
  by_cases hk : k ∈ shared
  · rw [if_pos hk, if_pos hk, lookupD_zip_splitCols E.numel shared k v hk, hh1 k,
      taskAccum_unlisted' E _ k (h k)]
    intro tl htl hkt
    exact hno tl.1 (List.of_mem_zip htl).1 k hkt hk
  · rw [if_neg hk, if_neg hk, hh1 k]

end

end Tjd.Autojac
