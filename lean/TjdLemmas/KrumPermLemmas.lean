/- helper lemmas for TjdProps/C10b.lean: Krum under a simultaneous row/column permutation -/
import Mathlib.Algebra.Order.Field.Basic
import TjdModel.Agg.Spec2
import TjdLemmas.PermLemmas
namespace Tjd.Agg.PermL
open Tjd Tjd.Agg Tjd.Agg.Eqv
set_option linter.unusedSectionVars false
set_option linter.unusedSimpArgs false
set_option linter.unusedVariables false

variable {α : Type} [Field α] [LinearOrder α] [IsStrictOrderedRing α]

/-! ### scores -/

/-- the score of one row of the distance matrix -/
def krumRowScore (n : Nat) (row : Vec α) : α := ((smallest n row).drop 1).sum

theorem krumScores_eq_map (D : Mat α) (f : Nat) :
    krumScores D f = D.map (krumRowScore (D.length - f - 2 + 1)) := rfl

theorem krumRowScore_perm (n : Nat) {r₁ r₂ : Vec α} (h : r₁.Perm r₂) :
    krumRowScore n r₁ = krumRowScore n r₂ := by
  unfold krumRowScore smallest
  rw [sortAsc_eq_of_perm h]

theorem krumScores_perm [Inhabited α] (D : Mat α) (m : Nat) (hD : D.length = m)
    (hrows : ∀ r ∈ D, r.length = m) (f : Nat) (p : List Nat) (hp : p.Perm (List.range m)) :
    krumScores (permV p (D.map (permV p))) f = permV p (krumScores D f) := by
  have hpl := perm_length hp
  rw [krumScores_eq_map, krumScores_eq_map, permV_length, hpl, hD]
  simp only [permV, List.map_map]
  apply List.map_congr_left
  intro i hi
  have hi' : i < D.length := by rw [hD]; exact perm_lt hp i hi
  simp only [Function.comp]
  rw [getD_map_row _ D i hi' [] default, getD_map_row _ D i hi' [] default]
  apply krumRowScore_perm
  have hr : (D.getD i []).length = m := hrows _ (getD_mem D _ i hi')
  exact permV_perm p _ (by rw [hr]; exact hp)

/-! ### selection -/

theorem krumSorted_map_fst (s : Vec α) : (krumSorted s).map (·.1) = sortAsc s := by
  have hp := (krumSorted_perm s).map (·.1)
  rw [List.zipIdx_map_fst] at hp
  have hs : ((krumSorted s).map (·.1)).Pairwise (· ≤ ·) := by
    rw [List.pairwise_map]
    exact krumSorted_sorted s
  exact (sortAsc_eq_of_sorted_perm hs hp).symm

theorem krumSorted_length (s : Vec α) : (krumSorted s).length = s.length := by
  rw [(krumSorted_perm s).length_eq, List.length_zipIdx]

theorem sortAsc_getD_eq (s : Vec α) (j : Nat) (hj : j < (krumSorted s).length) :
    (sortAsc s).getD j 0 = ((krumSorted s)[j]).1 := by
  have hl : j < (sortAsc s).length := by rw [sortAsc_length, ← krumSorted_length]; exact hj
  rw [getD_eq_getElem' _ _ j hl]
  simp only [← krumSorted_map_fst, List.getElem_map]

theorem lowestK_snd_eq (s : Vec α) (k : Nat) (hk : 1 ≤ k) (hkm : k < s.length) :
    (lowestK s k).2 = (sortAsc s).getD k 0 - (sortAsc s).getD (k - 1) 0 := by
  have hl := krumSorted_length s
  have h1 : k - 1 < (krumSorted s).length := by omega
  have h2 : k < (krumSorted s).length := by omega
  rw [sortAsc_getD_eq s k h2, sortAsc_getD_eq s (k - 1) h1]
  show (match (krumSorted s).drop (k - 1) with
    | a :: b :: _ => b.1 - a.1
    | _ => 1) = _
  have e : (krumSorted s).drop (k - 1) =
      (krumSorted s)[k - 1] :: (krumSorted s)[k] :: (krumSorted s).drop (k + 1) := by
    rw [List.drop_eq_getElem_cons h1]
    have : k - 1 + 1 = k := by omega
    simp only [this]
    rw [List.drop_eq_getElem_cons h2]
  rw [e]

theorem krumSorted_mem (s : Vec α) (e : α × Nat) (he : e ∈ krumSorted s) :
    e.2 < s.length ∧ s.getD e.2 0 = e.1 := by
  have hz : e ∈ s.zipIdx := (krumSorted_perm s).subset he
  have hlt : e.2 < s.length := by simpa using List.snd_lt_of_mem_zipIdx hz
  refine ⟨hlt, ?_⟩
  rw [List.mem_zipIdx_iff_getElem?] at hz
  rw [List.getD_eq_getElem?_getD, hz, Option.getD_some]

theorem lowestK_mem_iff (s : Vec α) (k : Nat) (hk : 1 ≤ k) (hkm : k < s.length)
    (hgap : (sortAsc s).getD (k - 1) 0 < (sortAsc s).getD k 0) (i : Nat) (hi : i < s.length) :
    i ∈ (lowestK s k).1 ↔ s.getD i 0 ≤ (sortAsc s).getD (k - 1) 0 := by
  have hl := krumSorted_length s
  have h1 : k - 1 < (krumSorted s).length := by omega
  have h2 : k < (krumSorted s).length := by omega
  rw [sortAsc_getD_eq s k h2, sortAsc_getD_eq s (k - 1) h1] at hgap
  rw [sortAsc_getD_eq s (k - 1) h1, lowestK_fst]
  have hs := krumSorted_sorted s
  constructor
  · intro hmem
    obtain ⟨e, he, rfl⟩ := List.mem_map.mp hmem
    obtain ⟨_, hv⟩ := krumSorted_mem s e (List.mem_of_mem_take he)
    rw [hv]
    obtain ⟨j, hj, rfl⟩ := List.mem_iff_getElem.mp he
    rw [List.length_take] at hj
    rw [List.getElem_take]
    rcases Nat.lt_or_ge j (k - 1) with hlt | hge
    · exact List.pairwise_iff_getElem.mp hs j (k - 1) (by omega) h1 hlt
    · have : j = k - 1 := by omega
      subst this
      exact le_rfl
  · intro hle
    have hq : (s[i], i) ∈ krumSorted s := by
      apply (krumSorted_perm s).symm.subset
      rw [List.mk_mem_zipIdx_iff_getElem?]
      exact List.getElem?_eq_getElem hi
    rw [getD_eq_getElem' s 0 i hi] at hle
    obtain ⟨j, hj, hje⟩ := List.mem_iff_getElem.mp hq
    rcases Nat.lt_or_ge j k with hlt | hge
    · refine List.mem_map.mpr ⟨(s[i], i), ?_, rfl⟩
      rw [← hje]
      exact List.mem_iff_getElem.mpr ⟨j, by rw [List.length_take]; omega, by rw [List.getElem_take]⟩
    · exfalso
      have hkj : ((krumSorted s)[k]).1 ≤ ((krumSorted s)[j]).1 := by
        rcases Nat.lt_or_ge k j with hlt | hge'
        · exact List.pairwise_iff_getElem.mp hs k j h2 hj hlt
        · have : j = k := by omega
          subst this
          exact le_rfl
      rw [hje] at hkj
      simp only at hkj
      exact absurd (lt_of_lt_of_le hgap (le_trans hkj hle)) (lt_irrefl _)

/-! ### the weights -/

theorem krum_row_perm' [Inhabited α] (D : Mat α) (m : Nat) (hD : D.length = m)
    (hrows : ∀ r ∈ D, r.length = m) (f k : Nat) (hk : 1 ≤ k) (hkm : k < m) (p : List Nat)
    (hp : p.Perm (List.range m)) (hgap : 0 < (krumWeights D f k).2) :
    (krumWeights (permV p (D.map (permV p))) f k).1 = permV p (krumWeights D f k).1 := by
  have hpl := perm_length hp
  have hsl : (krumScores D f).length = m := by rw [krumScores_length, hD]
  have hgap' : 0 < (lowestK (krumScores D f) k).2 := hgap
  rw [lowestK_snd_eq _ k hk (by omega)] at hgap'
  have hgap'' : (sortAsc (krumScores D f)).getD (k - 1) 0 < (sortAsc (krumScores D f)).getD k 0 := by
    linarith
  have hperm : (permV p (krumScores D f)).Perm (krumScores D f) :=
    permV_perm p _ (by rw [hsl]; exact hp)
  have hsort : sortAsc (permV p (krumScores D f)) = sortAsc (krumScores D f) :=
    sortAsc_eq_of_perm hperm
  rw [krumWeights_fst, krumWeights_fst, krumScores_perm D m hD hrows f p hp, permV_length, hpl, hD]
  apply List.ext_getElem (by rw [permV_length, hpl, List.length_map, List.length_range])
  intro j h1 h2
  have hj : j < m := by simpa using h1
  have hpj : p[j]'(by omega) < m := perm_lt hp _ (List.getElem_mem _)
  rw [permV_getElem, map_range_getD _ m _ hpj, List.getElem_map, List.getElem_range]
  have hiff : j ∈ (lowestK (permV p (krumScores D f)) k).1 ↔
      p[j]'(by omega) ∈ (lowestK (krumScores D f) k).1 := by
    rw [lowestK_mem_iff _ k hk (by rw [permV_length, hpl]; exact hkm) (by rw [hsort]; exact hgap'') j
        (by rw [permV_length, hpl]; exact hj),
      lowestK_mem_iff _ k hk (by omega) hgap'' _ (by rw [hsl]; exact hpj), hsort,
      permV_getD0 p m hp _ hsl j (by omega)]
  simp only [List.contains_iff_mem, hiff]

end Tjd.Agg.PermL
