/- helper lemmas for TjdProps/C03.lean (QP / KKT / Gramian): UPGrad / DualProj level.
   Lower layers: QPBridge (list ↔ `Fin m → α`), QPKkt (KKT ⇒ minimiser, uniqueness),
   QPGram (regularised normalised Gramian). -/
import Mathlib.Algebra.Order.Field.Basic
import TjdModel.Agg.Spec
import TjdLemmas.QPBridge
import TjdLemmas.QPKkt
import TjdLemmas.QPGram
namespace Tjd.Agg
open Tjd Matrix
set_option linter.unusedSectionVars false
set_option linter.unusedSimpArgs false

variable {α : Type} [Field α] [LinearOrder α] [IsStrictOrderedRing α]

theorem qpProject_isQPMin (G : Mat α) (m : Nat) (hS : SymmSquare G m) (hP : PosDef G m)
    (u w : Vec α) (hu : u.length = m) (mg : α) (h : qpProject G u = some (w, mg)) :
    IsQPMin G u w :=
  isQPMin_of_kktCheck G m hS (psd_of_pd G m hP) u w hu (qpProject_kkt G u w mg h)

theorem all_isSome_map_some {β : Type} : ∀ (l : List (Option β)), l.all Option.isSome = true →
    (l.filterMap id).map some = l
  | [], _ => rfl
  | none :: l, h => by simp at h
  | some a :: l, h => by
    simp only [List.all_cons, Option.isSome_some, Bool.true_and] at h
    rw [List.filterMap_cons_some (by rfl : id (some a) = some a), List.map_cons,
      all_isSome_map_some l h]

/-- unit vector scaled by `u_i` -/
def scaledUnit (u : Vec α) (i : Nat) : Vec α :=
  (List.range u.length).map fun j => if j = i then u.getD i 0 else 0

theorem upgrad_rows (J : Mat α) (s normEps regEps : α) (u w : Vec α) (mg : α)
    (h : upgradWeights J s normEps regEps u = some (w, mg)) :
    ∃ ws : List (Vec α), ws.length = u.length ∧ w = vsum u.length ws ∧
      ∀ i, i < u.length → ∃ mg', qpProject (regNormGram J s normEps regEps) (scaledUnit u i) =
        some (ws.getD i [], mg') := by
  unfold upgradWeights at h
  simp only at h
  split at h
  · rename_i hall
    have hmap := all_isSome_map_some _ hall
    simp only [Option.some.injEq, Prod.mk.injEq] at h
    generalize hps : List.filterMap id _ = ps at hmap h
    have hlen : ps.length = u.length := by
      have := congrArg List.length hmap
      simpa using this
    refine ⟨ps.map (·.1), by simpa using hlen, h.1.symm, fun i hi => ?_⟩
    refine ⟨(ps.getD i ([], 0)).2, ?_⟩
    have := congrArg (fun l => l[i]?) hmap
    simp only [List.getElem?_map, List.getElem?_range hi, Option.map_some, Option.some.injEq,
      List.getElem?_eq_getElem (hlen ▸ hi : i < ps.length)] at this
    rw [scaledUnit, ← this]
    simp [List.getD_eq_getElem?_getD, List.getElem?_eq_getElem (hlen ▸ hi : i < ps.length)]
  · simp at h

theorem vadd_getD (x y : Vec α) (h : x.length = y.length) (k : Nat) :
    (vadd x y).getD k 0 = x.getD k 0 + y.getD k 0 :=
  congrFun (toFn_vadd (k + 1) x y h) ⟨k, Nat.lt_succ_self k⟩

theorem smul_getD (c : α) (x : Vec α) (k : Nat) : (smul c x).getD k 0 = c * x.getD k 0 :=
  congrFun (toFn_smul (k + 1) c x) ⟨k, Nat.lt_succ_self k⟩

theorem zeros_length (n : Nat) : (zeros n : Vec α).length = n := by simp [zeros]

theorem zeros_getD (n k : Nat) : (zeros n : Vec α).getD k 0 = 0 := by
  simp only [zeros, List.getD_eq_getElem?_getD, List.getElem?_replicate]
  split_ifs <;> simp

theorem toFn_zeros (m n : Nat) : toFn m (zeros n : Vec α) = 0 := by
  funext i; exact zeros_getD n i

theorem foldl_vadd_getD (n k : Nat) : ∀ (m : Nat) (xs : List (Vec α)) (acc : Vec α),
    xs.length = m → acc.length = n → (∀ x ∈ xs, x.length = n) →
    (xs.foldl vadd acc).length = n ∧
      (xs.foldl vadd acc).getD k 0 = acc.getD k 0 + ∑ i : Fin m, (xs.getD i []).getD k 0
  | m, [], acc, hm, hacc, _ => by
    simp at hm; subst hm; simp [hacc]
  | 0, _ :: _, _, hm, _, _ => by simp at hm
  | m + 1, x :: xs, acc, hm, hacc, hall => by
    have hx : x.length = n := hall x (by simp)
    have hacc' : (vadd acc x).length = n := by rw [vadd_length _ _ (by omega)]; exact hacc
    obtain ⟨h1, h2⟩ := foldl_vadd_getD n k m xs (vadd acc x) (by simpa using hm) hacc'
      (fun y hy => hall y (by simp [hy]))
    refine ⟨h1, ?_⟩
    rw [List.foldl_cons, h2, vadd_getD _ _ (by omega), Fin.sum_univ_succ]
    simp [add_assoc]

theorem vsum_length (n : Nat) (xs : List (Vec α)) (hall : ∀ x ∈ xs, x.length = n) :
    (vsum n xs).length = n :=
  (foldl_vadd_getD n 0 xs.length xs (zeros n) rfl (zeros_length n) hall).1

theorem toFn_vsum (m n : Nat) (xs : List (Vec α)) (hlen : xs.length = m)
    (hall : ∀ x ∈ xs, x.length = n) :
    toFn n (vsum n xs) = ∑ i : Fin m, toFn n (xs.getD i []) := by
  funext k
  rw [toFn_apply, vsum, (foldl_vadd_getD n k m xs (zeros n) hlen (zeros_length n) hall).2,
    zeros_getD, zero_add, Finset.sum_apply]
  rfl

theorem foldl_vadd_induction (P : Vec α → Prop) (n : Nat)
    (hadd : ∀ x y, x.length = n → y.length = n → P x → P y → P (vadd x y)) :
    ∀ (xs : List (Vec α)) (acc : Vec α), acc.length = n → P acc →
      (∀ x ∈ xs, x.length = n ∧ P x) → P (xs.foldl vadd acc)
  | [], acc, _, h, _ => h
  | x :: xs, acc, hacc, h, hall => by
    have hx := hall x (by simp)
    rw [List.foldl_cons]
    apply foldl_vadd_induction P n hadd xs
    · rw [vadd_length _ _ (by omega)]; exact hacc
    · exact hadd acc x hacc hx.1 h hx.2
    · exact fun y hy => hall y (by simp [hy])

theorem toFn_combine (J : Mat α) (m n : Nat) (hJ : MatWF J m n) (w : Vec α) (hw : w.length = m) :
    toFn n (combine n J w) = toFn m w ᵥ* toMat m n J := by
  have hlen : (List.zipWith smul w J).length = m := by simp [hw, hJ.1]
  have hall : ∀ x ∈ List.zipWith smul w J, x.length = n := by
    intro x hx
    obtain ⟨i, hi, rfl⟩ := List.mem_iff_getElem.mp hx
    rw [List.getElem_zipWith, smul_length]
    exact hJ.2 _ (List.getElem_mem _)
  rw [combine, toFn_vsum m n _ hlen hall]
  funext k
  rw [Finset.sum_apply]
  apply Finset.sum_congr rfl
  intro i _
  have hi1 : (i : Nat) < w.length := by omega
  have hi2 : (i : Nat) < J.length := by rw [hJ.1]; exact i.2
  simp only [toFn, toMat, List.getD_eq_getElem?_getD]
  rw [List.getElem?_eq_getElem (l := List.zipWith smul w J) (i := (i : Nat)) (by simp [hi1, hi2]),
    List.getElem_zipWith,
    List.getElem?_eq_getElem hi1, List.getElem?_eq_getElem hi2]
  simp only [Option.getD_some]
  have := smul_getD w[(i : Nat)] J[(i : Nat)] k
  simp only [List.getD_eq_getElem?_getD] at this
  rw [this]

theorem map_getD_lt {β : Type} [Zero β] (g : α → β) (w : Vec α) (i : Nat) (hi : i < w.length) :
    (w.map g).getD i 0 = g (w.getD i 0) := by
  simp [List.getD_eq_getElem?_getD, List.getElem?_eq_getElem hi]

/-- dual feasibility `0 ≤ G w` ⇒ non-conflict up to `reg_eps · s² · w_i` -/
theorem nonconflict_of_dual (J : Mat α) (m n : Nat) (hJ : MatWF J m n) (s normEps regEps : α)
    (hs : normEps ≤ s) (hs0 : 0 < s) (w : Vec α) (hw : w.length = m)
    (hdual : 0 ≤ toMat m m (regNormGram J s normEps regEps) *ᵥ toFn m w) :
    NonConflictUpTo J (combine n J w) (w.map fun wi => regEps * (s * s) * wi) := by
  intro i hi
  have hi' : i < m := by rw [← hJ.1]; exact hi
  have hrow : (J.getD i []).length = n := hJ.2 _ (getD_mem J [] i hi)
  rw [map_getD_lt _ w i (by omega), dot_eq_left n _ _ hrow.le, toFn_combine J m n hJ w hw]
  have h := hdual ⟨i, hi'⟩
  rw [toMat_regNormGram J m n hJ, add_mulVec, smul_mulVec, smul_mulVec, one_mulVec,
    ← mulVec_mulVec, mulVec_transpose] at h
  simp only [Pi.zero_apply, Pi.add_apply, Pi.smul_apply, smul_eq_mul, gramCoef, not_lt.mpr hs,
    if_false] at h
  have hss : 0 < s * s := mul_pos hs0 hs0
  have h2 := mul_nonneg hss.le h
  rw [mul_add, ← mul_assoc, mul_inv_cancel₀ hss.ne', one_mul] at h2
  have e : toFn n (J.getD i []) ⬝ᵥ (toFn m w ᵥ* toMat m n J) =
      (toMat m n J *ᵥ (toFn m w ᵥ* toMat m n J)) ⟨i, hi'⟩ := rfl
  rw [e]
  have e2 : toFn m w ⟨i, hi'⟩ = w.getD i 0 := rfl
  rw [e2] at h2
  linarith

theorem isQPMin_self_of_nonneg (G : Mat α) (m : Nat) (hS : SymmSquare G m) (hP : PosDef G m)
    (hG : ∀ a b, a < m → b < m → 0 ≤ (G.getD a []).getD b 0) (u : Vec α) (hu : u.length = m)
    (hu0 : ∀ i, i < m → 0 ≤ u.getD i 0) : IsQPMin G u u := by
  apply isQPMin_of_kkt G m hS (psd_of_pd G m hP) u u hu hu ⟨rfl, fun i _ => le_rfl⟩
  · intro i hi
    rw [dot_eq_sum_right m _ _ hu.le]
    exact Finset.sum_nonneg fun j _ => mul_nonneg (hG i j hi j.2) (hu0 j j.2)
  · rw [dot_eq_left m _ _ (by rw [vsub_length _ _ rfl]; omega), toFn_vsub m u u rfl, sub_self,
      zero_dotProduct]

theorem qpProject_eq_self (G : Mat α) (m : Nat) (hS : SymmSquare G m) (hP : PosDef G m)
    (hG : ∀ a b, a < m → b < m → 0 ≤ (G.getD a []).getD b 0) (u : Vec α) (hu : u.length = m)
    (hu0 : ∀ i, i < m → 0 ≤ u.getD i 0) (w : Vec α) (mg : α)
    (h : qpProject G u = some (w, mg)) : w = u :=
  isQPMin_unique G m hS hP u w u hu (qpProject_isQPMin G m hS hP u w hu mg h)
    (isQPMin_self_of_nonneg G m hS hP hG u hu hu0)

theorem scaledUnit_length (u : Vec α) (i : Nat) : (scaledUnit u i).length = u.length := by
  simp [scaledUnit]

theorem scaledUnit_getD (u : Vec α) (i k : Nat) (hk : k < u.length) :
    (scaledUnit u i).getD k 0 = if k = i then u.getD i 0 else 0 := by
  simp [scaledUnit, List.getD_eq_getElem?_getD, List.getElem?_range hk]

theorem vsum_scaledUnits (u : Vec α) (ws : List (Vec α)) (hlen : ws.length = u.length)
    (h : ∀ i, i < u.length → ws.getD i [] = scaledUnit u i) : vsum u.length ws = u := by
  have hall : ∀ x ∈ ws, x.length = u.length := by
    intro x hx
    obtain ⟨i, hi, rfl⟩ := List.mem_iff_getElem.mp hx
    have := h i (by omega)
    rw [List.getD_eq_getElem?_getD, List.getElem?_eq_getElem hi, Option.getD_some] at this
    rw [this, scaledUnit_length]
  apply toFn_injective u.length _ _ (vsum_length _ ws hall) rfl
  rw [toFn_vsum u.length u.length ws hlen hall]
  funext k
  rw [Finset.sum_apply]
  have : ∀ i : Fin u.length, toFn u.length (ws.getD i []) k = if k = i then toFn u.length u i else 0 := by
    intro i
    rw [h i i.2, toFn_apply, scaledUnit_getD u i k k.2]
    simp only [Fin.ext_iff]
    rfl
  simp only [this]
  simp

/-- hypotheses under which the regularised Gramian has non-negative entries -/
theorem regNormGram_nonneg (J : Mat α) (m n : Nat) (hJ : MatWF J m n) (s normEps regEps : α)
    (hre : 0 < regEps)
    (h : s < normEps ∨ ∀ a b, a < m → b < m → 0 ≤ dot (J.getD a []) (J.getD b [])) (a b : Nat)
    (ha : a < m) (hb : b < m) : 0 ≤ ((regNormGram J s normEps regEps).getD a []).getD b 0 := by
  have hm := hJ.1
  rw [regNormGram_getD J s normEps regEps a b (by omega) (by omega)]
  have h1 : (0 : α) ≤ if a = b then regEps else 0 := by split_ifs <;> [exact hre.le; exact le_rfl]
  have h2 : (0 : α) ≤ if s < normEps then 0 else dot (J.getD a []) (J.getD b []) / (s * s) := by
    split_ifs with hlt
    · exact le_rfl
    · rcases h with h | h
      · exact absurd h hlt
      · exact div_nonneg (h a b ha hb) (mul_self_nonneg s)
  linarith

theorem dual_fn_of_kktCheck (G : Mat α) (m : Nat) (u w : Vec α) (hu : u.length = m)
    (hk : kktCheck G u w = true) : w.length = m ∧ 0 ≤ toMat m m G *ᵥ toFn m w := by
  obtain ⟨h1, _, _, h4, _⟩ := kktCheck_spec G u w hk
  have hw : w.length = m := by omega
  refine ⟨hw, ?_⟩
  rw [← toFn_matVec m m G w hw.le]
  intro i
  rw [toFn_apply, matVec_getD]
  exact h4 i (by rw [hu]; exact i.2)

theorem dualproj_proj (J : Mat α) (m n : Nat) (hJ : MatWF J m n) (s normEps regEps : α)
    (hre : 0 < regEps) (u w : Vec α) (hu : u.length = m) (mg : α)
    (h : dualprojWeights J s normEps regEps u = some (w, mg)) :
    IsQPMin (regNormGram J s normEps regEps) u w ∧
    ∀ w', IsQPMin (regNormGram J s normEps regEps) u w' → w' = w := by
  have hS := regNormGram_symmSquare J m n hJ s normEps regEps
  have hP := regNormGram_pd J m n hJ s normEps regEps hre
  have hmin := qpProject_isQPMin _ m hS hP u w hu mg h
  exact ⟨hmin, fun w' hw' => isQPMin_unique _ m hS hP u w' w hu hw' hmin⟩

theorem upgrad_sum_proj (J : Mat α) (m n : Nat) (hJ : MatWF J m n)
    (s normEps regEps : α) (hre : 0 < regEps) (u w : Vec α) (hu : u.length = m) (mg : α)
    (h : upgradWeights J s normEps regEps u = some (w, mg)) :
    ∃ ws : List (Vec α), ws.length = m ∧ w = vsum m ws ∧
      ∀ i, i < m →
        IsQPMin (regNormGram J s normEps regEps)
          ((List.range m).map fun j => if j = i then u.getD i 0 else 0) (ws.getD i []) := by
  subst hu
  have hS := regNormGram_symmSquare J _ n hJ s normEps regEps
  have hP := regNormGram_pd J _ n hJ s normEps regEps hre
  obtain ⟨ws, hlen, hw, hrows⟩ := upgrad_rows J s normEps regEps u w mg h
  refine ⟨ws, hlen, hw, fun i hi => ?_⟩
  obtain ⟨mg', hq⟩ := hrows i hi
  exact qpProject_isQPMin _ _ hS hP (scaledUnit u i) _ (scaledUnit_length u i) mg' hq

theorem dualproj_nc (J : Mat α) (m n : Nat) (hJ : MatWF J m n) (s normEps regEps : α)
    (hs : normEps ≤ s) (hs0 : 0 < s) (u w : Vec α) (hu : u.length = m) (mg : α)
    (h : dualprojWeights J s normEps regEps u = some (w, mg)) :
    NonConflictUpTo J (combine n J w) (w.map fun wi => regEps * (s * s) * wi) := by
  obtain ⟨hw, hd⟩ := dual_fn_of_kktCheck _ m u w hu (qpProject_kkt _ u w mg h)
  exact nonconflict_of_dual J m n hJ s normEps regEps hs hs0 w hw hd

theorem upgrad_nc (J : Mat α) (m n : Nat) (hJ : MatWF J m n) (s normEps regEps : α)
    (hs : normEps ≤ s) (hs0 : 0 < s) (u w : Vec α) (hu : u.length = m) (mg : α)
    (h : upgradWeights J s normEps regEps u = some (w, mg)) :
    NonConflictUpTo J (combine n J w) (w.map fun wi => regEps * (s * s) * wi) := by
  subst hu
  obtain ⟨ws, hlen, hw, hrows⟩ := upgrad_rows J s normEps regEps u w mg h
  have hall : ∀ x ∈ ws, x.length = u.length ∧
      0 ≤ toMat u.length u.length (regNormGram J s normEps regEps) *ᵥ toFn u.length x := by
    intro x hx
    obtain ⟨i, hi, rfl⟩ := List.mem_iff_getElem.mp hx
    obtain ⟨mg', hq⟩ := hrows i (by omega)
    rw [List.getD_eq_getElem?_getD, List.getElem?_eq_getElem hi, Option.getD_some] at hq
    exact dual_fn_of_kktCheck _ _ (scaledUnit u i) _ (scaledUnit_length u i)
      (qpProject_kkt _ _ _ mg' hq)
  have hwl : w.length = u.length := by
    rw [hw]; exact vsum_length _ ws fun x hx => (hall x hx).1
  apply nonconflict_of_dual J _ n hJ s normEps regEps hs hs0 w hwl
  rw [hw, vsum]
  apply foldl_vadd_induction
    (fun x => 0 ≤ toMat u.length u.length (regNormGram J s normEps regEps) *ᵥ toFn u.length x)
    u.length _ ws (zeros u.length) (zeros_length _) _ hall
  · intro x y hx hy h1 h2
    show 0 ≤ _
    rw [toFn_vadd _ x y (by omega), mulVec_add]
    exact fun i => add_nonneg (h1 i) (h2 i)
  · show 0 ≤ _
    rw [toFn_zeros, mulVec_zero]

theorem identity_both (J : Mat α) (m n : Nat) (hJ : MatWF J m n) (s normEps regEps : α)
    (hre : 0 < regEps) (u : Vec α) (hu : u.length = m) (hu0 : ∀ x ∈ u, 0 ≤ x)
    (hc : s < normEps ∨ ∀ a b, a < m → b < m → 0 ≤ dot (J.getD a []) (J.getD b []))
    (w : Vec α) (mg : α) :
    (dualprojWeights J s normEps regEps u = some (w, mg) → w = u) ∧
    (upgradWeights J s normEps regEps u = some (w, mg) → w = u) := by
  subst hu
  have hS := regNormGram_symmSquare J _ n hJ s normEps regEps
  have hP := regNormGram_pd J _ n hJ s normEps regEps hre
  have hG := regNormGram_nonneg J _ n hJ s normEps regEps hre hc
  have hu0' : ∀ i, i < u.length → 0 ≤ u.getD i 0 := fun i hi => hu0 _ (getD_mem u 0 i hi)
  constructor
  · intro h
    exact qpProject_eq_self _ _ hS hP hG u rfl hu0' w mg h
  · intro h
    obtain ⟨ws, hlen, hw, hrows⟩ := upgrad_rows J s normEps regEps u w mg h
    rw [hw]
    apply vsum_scaledUnits u ws hlen
    intro i hi
    obtain ⟨mg', hq⟩ := hrows i hi
    apply qpProject_eq_self _ _ hS hP hG (scaledUnit u i) (scaledUnit_length u i) _ _ mg' hq
    intro k hk
    rw [scaledUnit_getD u i k hk]
    split_ifs
    · exact hu0' i hi
    · exact le_rfl

end Tjd.Agg
