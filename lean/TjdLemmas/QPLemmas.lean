/- helper lemmas for TjdProps/C03.lean (QP / KKT / Gramian) -/
import Mathlib.Algebra.Order.Field.Basic
import TjdModel.Agg.Spec
namespace Tjd.Agg

end Tjd.Agg
