/- helper lemmas for the Frank–Wolfe / min-norm theorems (C04, C18) -/
import Mathlib.Algebra.Order.Field.Basic
import Mathlib.Algebra.Order.BigOperators.Ring.Finset
import Mathlib.Tactic.Ring
import Mathlib.Tactic.Linarith
import Mathlib.Tactic.FieldSimp
import Mathlib.Tactic.Positivity
import TjdModel.Agg.Spec2
import TjdLemmas.QPLemmas
import TjdLemmas.GramLemmas
namespace Tjd.Agg
open Tjd Matrix
set_option linter.unusedSectionVars false
set_option linter.unusedSimpArgs false
set_option linter.unusedVariables false

variable {α : Type} [Field α] [LinearOrder α] [IsStrictOrderedRing α]

/-! ### the scalar line search -/

/-- the step size of `fwStep` as a function of `a = αᵀGe_t`, `b = αᵀGα`, `c = e_tᵀGe_t` -/
def fwGamma (a b c : α) : α :=
  if c ≤ a then 1 else if b ≤ a then 0 else (b - a) / (b + c - (1 + 1) * a)

theorem fwGamma_range (a b c : α) : 0 ≤ fwGamma a b c ∧ fwGamma a b c ≤ 1 := by
  unfold fwGamma
  split_ifs with h1 h2
  · exact ⟨zero_le_one, le_rfl⟩
  · exact ⟨le_rfl, zero_le_one⟩
  · replace h1 := not_le.mp h1; replace h2 := not_le.mp h2
    have hd : 0 < b + c - (1 + 1) * a := by linarith
    constructor
    · exact div_nonneg (by linarith) hd.le
    · rw [div_le_one hd]; linarith

/-- the value of the quadratic along the segment -/
def fwPhi (a b c g : α) : α := b + 2 * g * (a - b) + g * g * (b + c - 2 * a)

/-- exact line search: at least as good as any fixed step in `[0, 1]` -/
theorem fwGamma_opt (a b c : α) (hd : 0 ≤ b + c - 2 * a) (g : α) (hg0 : 0 ≤ g) (hg1 : g ≤ 1) :
    fwPhi a b c (fwGamma a b c) ≤ fwPhi a b c g := by
  unfold fwGamma fwPhi
  split_ifs with h1 h2
  · nlinarith [mul_nonneg (sub_nonneg.2 h1) (sub_nonneg.2 hg1), mul_nonneg hd (sq_nonneg (g - 1))]
  · nlinarith [mul_nonneg hg0 (sub_nonneg.2 h2), mul_nonneg hd (sq_nonneg g)]
  · replace h1 := not_le.mp h1; replace h2 := not_le.mp h2
    have hd' : 0 < b + c - 2 * a := by linarith
    rw [one_add_one_eq_two]
    generalize hγ : (b - a) / (b + c - 2 * a) = γ
    have e : γ * (b + c - 2 * a) = b - a := by rw [← hγ]; exact div_mul_cancel₀ _ hd'.ne'
    have e1 : γ * γ * (b + c - 2 * a) = γ * (b - a) := by rw [mul_assoc, e]
    have e2 : g * γ * (b + c - 2 * a) = g * (b - a) := by rw [mul_assoc, e]
    have h3 := mul_nonneg hd (sq_nonneg (g - γ))
    have e3 : (b + c - 2 * a) * (g - γ) ^ 2 =
        g * g * (b + c - 2 * a) - 2 * (g * γ * (b + c - 2 * a)) + γ * γ * (b + c - 2 * a) := by ring
    rw [e3, e1, e2] at h3
    rw [e1]
    linarith

/-- in the interior branch the exact line search is the global minimiser on the whole line -/
theorem fwGamma_opt_line (a b c : α) (hd : 0 ≤ b + c - 2 * a) (hab : a ≤ b) (g : α) (hg1 : g ≤ 1) :
    fwPhi a b c (fwGamma a b c) ≤ fwPhi a b c g := by
  by_cases hg0 : 0 ≤ g
  · exact fwGamma_opt a b c hd g hg0 hg1
  · replace hg0 := not_le.mp hg0
    refine le_trans (fwGamma_opt a b c hd 0 le_rfl zero_le_one) ?_
    unfold fwPhi
    nlinarith [mul_nonneg (sub_nonneg.2 hab) (neg_nonneg.2 hg0.le), mul_nonneg hd (sq_nonneg g)]

theorem fwPhi_zero (a b c : α) : fwPhi a b c 0 = b := by unfold fwPhi; ring

/-! ### simplex facts -/

theorem inSimplex_fn {a : Vec α} {m : Nat} (ha : InSimplex a m) :
    a.length = m ∧ (∀ i : Fin m, 0 ≤ toFn m a i) ∧ ∑ i : Fin m, toFn m a i = 1 := by
  obtain ⟨h1, h2, h3⟩ := ha
  refine ⟨h1, fun i => h2 _ (getD_mem a 0 i (by omega)), ?_⟩
  rw [← h3, list_sum_eq_sum m a h1.le]
  rfl

theorem inSimplex_of_fn {a : Vec α} {m : Nat} (h1 : a.length = m) (h2 : ∀ i : Fin m, 0 ≤ toFn m a i)
    (h3 : ∑ i : Fin m, toFn m a i = 1) : InSimplex a m := by
  refine ⟨h1, fun x hx => ?_, ?_⟩
  · obtain ⟨i, hi, rfl⟩ := List.mem_iff_getElem.mp hx
    have := h2 ⟨i, by omega⟩
    simpa [toFn, List.getD_eq_getElem?_getD, List.getElem?_eq_getElem hi] using this
  · rw [← h3, list_sum_eq_sum m a h1.le]
    rfl

theorem inSimplex_pos {a : Vec α} {m : Nat} (ha : InSimplex a m) : 0 < m := by
  obtain ⟨h1, _, h3⟩ := ha
  rcases Nat.eq_zero_or_pos m with h | h
  · subst h
    have : a = [] := List.length_eq_zero_iff.mp h1
    subst this
    simp at h3
  · exact h

theorem oneHot_inSimplex (m t : Nat) (ht : t < m) : InSimplex (oneHot m t : Vec α) m := by
  apply inSimplex_of_fn (oneHot_length m t)
  · intro i; rw [toFn_oneHot]; dsimp only; split_ifs <;> simp
  · rw [toFn_oneHot]
    rw [Finset.sum_eq_single (⟨t, ht⟩ : Fin m)]
    · simp
    · intro i _ hi
      have : (i : Nat) ≠ t := fun h => hi (Fin.ext h)
      simp [this]
    · simp

theorem replicate_inSimplex (m : Nat) (hm : 0 < m) :
    InSimplex (List.replicate m (1 / (m : α))) m := by
  have hm' : (m : α) ≠ 0 := Nat.cast_ne_zero.mpr (by omega)
  refine ⟨by simp, fun x hx => ?_, ?_⟩
  · rw [List.eq_of_mem_replicate hx]; positivity
  · rw [List.sum_replicate, nsmul_eq_mul]; field_simp

theorem convex_inSimplex {a e : Vec α} {m : Nat} (ha : InSimplex a m) (he : InSimplex e m) (g : α)
    (hg0 : 0 ≤ g) (hg1 : g ≤ 1) : InSimplex (vadd (smul (1 - g) a) (smul g e)) m := by
  obtain ⟨a1, a2, a3⟩ := inSimplex_fn ha
  obtain ⟨e1, e2, e3⟩ := inSimplex_fn he
  have hl : (smul (1 - g) a).length = (smul g e).length := by rw [smul_length, smul_length, a1, e1]
  apply inSimplex_of_fn
  · rw [vadd_length _ _ hl, smul_length, a1]
  · intro i
    rw [toFn_vadd m _ _ hl, toFn_smul, toFn_smul]
    simp only [Pi.add_apply, Pi.smul_apply, smul_eq_mul]
    exact add_nonneg (mul_nonneg (sub_nonneg.2 hg1) (a2 i)) (mul_nonneg hg0 (e2 i))
  · rw [toFn_vadd m _ _ hl, toFn_smul, toFn_smul]
    simp only [Pi.add_apply, Pi.smul_apply, smul_eq_mul]
    rw [Finset.sum_add_distrib, ← Finset.mul_sum, ← Finset.mul_sum, a3, e3]
    ring

/-! ### the quadratic along a line -/

theorem qfF_line {m : Nat} (A : Matrix (Fin m) (Fin m) α) (hA : Aᵀ = A) (x e : Fin m → α) (g : α) :
    ((1 - g) • x + g • e) ⬝ᵥ A *ᵥ ((1 - g) • x + g • e) =
      fwPhi (x ⬝ᵥ A *ᵥ e) (x ⬝ᵥ A *ᵥ x) (e ⬝ᵥ A *ᵥ e) g := by
  simp only [mulVec_add, mulVec_smul, add_dotProduct, dotProduct_add, smul_dotProduct,
    dotProduct_smul, smul_eq_mul]
  rw [qfF_symm A hA x e]
  unfold fwPhi
  ring

theorem qf_line (G : Mat α) (m : Nat) (hG : SymmSquare G m) (a e : Vec α) (ha : a.length = m)
    (he : e.length = m) (g : α) :
    qf G (vadd (smul (1 - g) a) (smul g e)) =
      fwPhi (dot a (matVec G e)) (dot a (matVec G a)) (dot e (matVec G e)) g := by
  have hl : (smul (1 - g) a).length = (smul g e).length := by rw [smul_length, smul_length, ha, he]
  have hlen : (vadd (smul (1 - g) a) (smul g e)).length = m := by
    rw [vadd_length _ _ hl, smul_length, ha]
  rw [qf_eq m G _ hlen.le, toFn_vadd m _ _ hl, toFn_smul, toFn_smul,
    qfF_line _ (toMat_symm m G hG), dot_eq_left m a _ ha.le, dot_eq_left m a _ ha.le,
    dot_eq_left m e _ he.le, toFn_matVec m m G e he.le, toFn_matVec m m G a ha.le]

theorem fw_d_nonneg (G : Mat α) (m : Nat) (hG : SymmSquare G m) (hpsd : PosSemidef G m)
    (a e : Vec α) (ha : a.length = m) (he : e.length = m) :
    0 ≤ dot a (matVec G a) + dot e (matVec G e) - 2 * dot a (matVec G e) := by
  have h := psd_fn m G hpsd (toFn m e - toFn m a)
  simp only [mulVec_sub, sub_dotProduct, dotProduct_sub] at h
  rw [qfF_symm _ (toMat_symm m G hG) (toFn m a) (toFn m e)] at h
  rw [dot_eq_left m a _ ha.le, dot_eq_left m a _ ha.le,
    dot_eq_left m e _ he.le, toFn_matVec m m G e he.le, toFn_matVec m m G a ha.le]
  linarith

/-! ### `vmin`, `argminGap` -/

theorem foldl_min_spec (xs : List α) (init : α) :
    xs.foldl (fun a b => if b < a then b else a) init ≤ init ∧
    (∀ x ∈ xs, xs.foldl (fun a b => if b < a then b else a) init ≤ x) ∧
    (xs.foldl (fun a b => if b < a then b else a) init = init ∨
      xs.foldl (fun a b => if b < a then b else a) init ∈ xs) := by
  induction xs generalizing init with
  | nil => simp
  | cons y ys ih =>
    simp only [List.foldl_cons]
    rcases lt_or_ge y init with h | h
    · rw [if_pos h]
      obtain ⟨h1, h2, h3⟩ := ih y
      refine ⟨h1.trans h.le, ?_, ?_⟩
      · intro x hx
        rcases List.mem_cons.mp hx with rfl | hx
        · exact h1
        · exact h2 x hx
      · rcases h3 with h3 | h3
        · right; rw [h3]; simp
        · right; exact List.mem_cons_of_mem _ h3
    · rw [if_neg (not_lt.mpr h)]
      obtain ⟨h1, h2, h3⟩ := ih init
      refine ⟨h1, ?_, ?_⟩
      · intro x hx
        rcases List.mem_cons.mp hx with rfl | hx
        · exact h1.trans h
        · exact h2 x hx
      · rcases h3 with h3 | h3
        · left; exact h3
        · right; exact List.mem_cons_of_mem _ h3

theorem vmin_spec (xs : List α) (d : α) (h : xs ≠ []) :
    vmin xs d ∈ xs ∧ ∀ x ∈ xs, vmin xs d ≤ x := by
  cases xs with
  | nil => exact absurd rfl h
  | cons y ys =>
    obtain ⟨h1, h2, h3⟩ := foldl_min_spec (y :: ys) y
    refine ⟨?_, h2⟩
    rcases h3 with h3 | h3
    · show List.foldl _ _ _ ∈ _
      simp only [List.headD_cons]
      rw [h3]; simp
    · exact h3

theorem argminGap_spec (xs : List α) (h : xs ≠ []) :
    (argminGap xs).1 < xs.length ∧
      ∀ i, i < xs.length → xs.getD (argminGap xs).1 0 ≤ xs.getD i 0 := by
  obtain ⟨hmem, hle⟩ := vmin_spec xs 0 h
  have e : (argminGap xs).1 =
      ((xs.zipIdx.find? (fun p => decide (p.1 = vmin xs 0))).map (·.2)).getD 0 := rfl
  rw [e]
  cases hf : xs.zipIdx.find? (fun p => decide (p.1 = vmin xs 0)) with
  | none =>
    exfalso
    rw [List.find?_eq_none] at hf
    obtain ⟨i, hi, hx⟩ := List.mem_iff_getElem.mp hmem
    apply hf (xs[i], i)
    · rw [List.mem_zipIdx_iff_getElem?]; simp [hi]
    · simp [hx]
  | some p =>
    have hp := List.find?_some hf
    have hm := List.mem_of_find?_eq_some hf
    rw [List.mem_zipIdx_iff_getElem?] at hm
    simp only [Option.map_some, Option.getD_some]
    obtain ⟨hlt, hget⟩ := List.getElem?_eq_some_iff.mp hm
    refine ⟨hlt, fun i hi => ?_⟩
    have hp' : p.1 = vmin xs 0 := by simpa using hp
    rw [List.getD_eq_getElem?_getD, hm, Option.getD_some, hp']
    exact hle _ (getD_mem xs 0 i hi)

/-! ### one Frank–Wolfe step -/

/-- the vertex chosen by `fwStep` -/
def fwT (G : Mat α) (a : Vec α) : Nat := (argminGap (matVec G a)).1
def fwE (G : Mat α) (a : Vec α) : Vec α := oneHot a.length (fwT G a)
def fwG (G : Mat α) (a : Vec α) : α :=
  fwGamma (dot a (matVec G (fwE G a))) (dot a (matVec G a)) (dot (fwE G a) (matVec G (fwE G a)))

theorem fwStep_fst (G : Mat α) (a : Vec α) :
    (fwStep G a).1 = vadd (smul (1 - fwG G a) a) (smul (fwG G a) (fwE G a)) := rfl

theorem fwStep_snd (G : Mat α) (a : Vec α) : (fwStep G a).2.1 = fwG G a := rfl

theorem fwG_range (G : Mat α) (a : Vec α) : 0 ≤ fwG G a ∧ fwG G a ≤ 1 := fwGamma_range _ _ _

theorem fwT_spec (G : Mat α) (m : Nat) (hm : 0 < m) (hG : G.length = m) (a : Vec α) :
    fwT G a < m ∧ ∀ i, i < m → (matVec G a).getD (fwT G a) 0 ≤ (matVec G a).getD i 0 := by
  have hl : (matVec G a).length = m := by rw [matVec_length, hG]
  have hne : matVec G a ≠ [] := by
    intro h; rw [h] at hl; simp at hl; omega
  have := argminGap_spec (matVec G a) hne
  rw [hl] at this
  exact this

theorem fwE_length (G : Mat α) (a : Vec α) : (fwE G a).length = a.length := oneHot_length _ _

theorem fwE_inSimplex (G : Mat α) (m : Nat) (hm : 0 < m) (hG : G.length = m) (a : Vec α)
    (ha : a.length = m) : InSimplex (fwE G a) m := by
  unfold fwE
  rw [ha]
  exact oneHot_inSimplex m _ (fwT_spec G m hm hG a).1

theorem fwStep_inSimplex (G : Mat α) (m : Nat) (hm : 0 < m) (hG : G.length = m) (a : Vec α)
    (ha : InSimplex a m) : InSimplex (fwStep G a).1 m := by
  rw [fwStep_fst]
  exact convex_inSimplex ha (fwE_inSimplex G m hm hG a ha.1) _ (fwG_range G a).1 (fwG_range G a).2

theorem fwStep_qf (G : Mat α) (m : Nat) (hG : SymmSquare G m) (a : Vec α) (ha : a.length = m) :
    qf G (fwStep G a).1 =
      fwPhi (dot a (matVec G (fwE G a))) (dot a (matVec G a))
        (dot (fwE G a) (matVec G (fwE G a))) (fwG G a) := by
  rw [fwStep_fst, qf_line G m hG a (fwE G a) ha (by rw [fwE_length, ha])]

/-- exact line search beats every fixed step -/
theorem fwStep_le_phi (G : Mat α) (m : Nat) (hG : SymmSquare G m) (hpsd : PosSemidef G m)
    (a : Vec α) (ha : a.length = m) (g : α) (hg0 : 0 ≤ g) (hg1 : g ≤ 1) :
    qf G (fwStep G a).1 ≤
      fwPhi (dot a (matVec G (fwE G a))) (dot a (matVec G a))
        (dot (fwE G a) (matVec G (fwE G a))) g := by
  rw [fwStep_qf G m hG a ha]
  exact fwGamma_opt _ _ _ (fw_d_nonneg G m hG hpsd a (fwE G a) ha (by rw [fwE_length, ha])) g hg0 hg1

theorem fwStep_mono (G : Mat α) (m : Nat) (hG : SymmSquare G m) (hpsd : PosSemidef G m)
    (a : Vec α) (ha : a.length = m) : qf G (fwStep G a).1 ≤ qf G a := by
  have := fwStep_le_phi G m hG hpsd a ha 0 le_rfl zero_le_one
  rwa [fwPhi_zero] at this

/-! ### the loop -/

theorem go_succ (G : Mat α) (eps : α) (k : Nat) (a : Vec α) (mg : α) :
    (mgdaWeights.go G eps (k + 1) a mg).1 =
      if (fwStep G a).2.1 < eps then (fwStep G a).1
      else (mgdaWeights.go G eps k (fwStep G a).1
        (vmin [mg, (fwStep G a).2.2, absV ((fwStep G a).2.1 - eps)] 1)).1 := by
  rw [mgdaWeights.go]
  generalize fwStep G a = r
  obtain ⟨a', g, mg'⟩ := r
  dsimp only
  split_ifs <;> rfl

theorem go_invariant (G : Mat α) (eps : α) (P : Vec α → Prop)
    (hP : ∀ a, P a → P (fwStep G a).1) :
    ∀ (k : Nat) (a : Vec α) (mg : α), P a → P (mgdaWeights.go G eps k a mg).1
  | 0, a, mg, h => by rw [mgdaWeights.go]; exact h
  | k + 1, a, mg, h => by
    rw [go_succ]
    split_ifs
    · exact hP a h
    · exact go_invariant G eps P hP k _ _ (hP a h)

theorem go_invariant_succ (G : Mat α) (eps : α) (P Q : Vec α → Prop)
    (hPQ : ∀ a, P a → Q (fwStep G a).1) (hQ : ∀ a, Q a → Q (fwStep G a).1)
    (k : Nat) (a : Vec α) (mg : α) (h : P a) : Q (mgdaWeights.go G eps (k + 1) a mg).1 := by
  rw [go_succ]
  split_ifs
  · exact hPQ a h
  · exact go_invariant G eps Q hQ k _ _ (hPQ a h)

theorem mgdaWeights_eq (G : Mat α) (m : Nat) (mInv eps : α) (K : Nat) :
    mgdaWeights G m mInv eps K = mgdaWeights.go G eps K (List.replicate m mInv) 1 := rfl

theorem mgda_simplex_mono (G : Mat α) (m : Nat) (hm : 0 < m) (hG : SymmSquare G m)
    (hpsd : PosSemidef G m) (epsilon : α) (K : Nat) :
    InSimplex (mgdaWeights G m (1 / (m : α)) epsilon K).1 m ∧
    qf G (mgdaWeights G m (1 / (m : α)) epsilon K).1 ≤ qf G (List.replicate m (1 / (m : α))) := by
  rw [mgdaWeights_eq]
  apply go_invariant G epsilon
    (fun a => InSimplex a m ∧ qf G a ≤ qf G (List.replicate m (1 / (m : α))))
  · rintro a ⟨h1, h2⟩
    exact ⟨fwStep_inSimplex G m hm hG.1 a h1, (fwStep_mono G m hG hpsd a h1.1).trans h2⟩
  · exact ⟨replicate_inSimplex m hm, le_rfl⟩

/-! ### the abstract Frank–Wolfe recurrence -/

theorem fw_rec (h : Nat → α) (C : α) (hC : 0 ≤ C)
    (hstep : ∀ k, ∀ γ : α, 0 ≤ γ → γ ≤ 1 → h (k + 1) ≤ (1 - γ) * h k + γ * γ * C / 2)
    (k : Nat) (hk : 1 ≤ k) : h k ≤ 2 * C / ((k : α) + 2) := by
  induction k, hk using Nat.le_induction with
  | base =>
    have h1 := hstep 0 1 zero_le_one le_rfl
    have e : 2 * C / (((1 : Nat) : α) + 2) = 2 * C / 3 := by norm_num
    rw [e]
    have h2 : (1 - 1) * h 0 + 1 * 1 * C / 2 = C / 2 := by ring
    rw [zero_add, h2] at h1
    linarith
  | succ k hk ih =>
    have hk0 : (0 : α) ≤ k := Nat.cast_nonneg k
    have hk2 : (0 : α) < (k : α) + 2 := by linarith
    have hγ0 : (0 : α) ≤ 2 / ((k : α) + 2) := by positivity
    have hγ1 : 2 / ((k : α) + 2) ≤ 1 := by rw [div_le_one hk2]; linarith
    have h1 := hstep k _ hγ0 hγ1
    have h2 : (1 - 2 / ((k : α) + 2)) * h k ≤ (1 - 2 / ((k : α) + 2)) * (2 * C / ((k : α) + 2)) :=
      mul_le_mul_of_nonneg_left ih (sub_nonneg.2 hγ1)
    have h3 : (1 - 2 / ((k : α) + 2)) * (2 * C / ((k : α) + 2)) +
        2 / ((k : α) + 2) * (2 / ((k : α) + 2)) * C / 2 = 2 * C * ((k : α) + 1) / ((k : α) + 2) ^ 2 := by
      field_simp
      ring
    have h4 : 2 * C * ((k : α) + 1) / ((k : α) + 2) ^ 2 ≤ 2 * C / (((k + 1 : Nat) : α) + 2) := by
      push_cast
      rw [div_le_div_iff₀ (by positivity) (by positivity)]
      nlinarith [hC, mul_nonneg hC hk0, mul_nonneg (mul_nonneg hC hk0) hk0]
    linarith

/-! ### variational inequality on the simplex -/

theorem simplex_dot_ge {m : Nat} (y v : Fin m → α) (hy0 : ∀ i, 0 ≤ y i) (hy1 : ∑ i, y i = 1) (c : α)
    (hc : ∀ i, c ≤ v i) : c ≤ y ⬝ᵥ v := by
  calc c = ∑ i, y i * c := by rw [← Finset.sum_mul, hy1, one_mul]
    _ ≤ ∑ i, y i * v i := Finset.sum_le_sum fun i _ => mul_le_mul_of_nonneg_left (hc i) (hy0 i)

theorem simplex_self_le_one {m : Nat} (y : Fin m → α) (hy0 : ∀ i, 0 ≤ y i) (hy1 : ∑ i, y i = 1) :
    y ⬝ᵥ y ≤ 1 := by
  calc y ⬝ᵥ y = ∑ i, y i * y i := rfl
    _ ≤ ∑ i, y i * 1 := Finset.sum_le_sum fun i _ => mul_le_mul_of_nonneg_left
        (by rw [← hy1]; exact Finset.single_le_sum (fun j _ => hy0 j) (Finset.mem_univ i)) (hy0 i)
    _ = 1 := by simp [hy1]

theorem simplex_min_fn {m : Nat} (A : Matrix (Fin m) (Fin m) α) (hA : Aᵀ = A)
    (hpsd : ∀ v : Fin m → α, 0 ≤ v ⬝ᵥ A *ᵥ v) (x y : Fin m → α) (hy0 : ∀ i, 0 ≤ y i)
    (hy1 : ∑ i, y i = 1) (hcert : ∀ i, x ⬝ᵥ A *ᵥ x ≤ (A *ᵥ x) i) :
    x ⬝ᵥ A *ᵥ x ≤ y ⬝ᵥ A *ᵥ y := by
  rw [qfF_expand A hA y x, sub_dotProduct]
  have h1 := simplex_dot_ge y (A *ᵥ x) hy0 hy1 _ hcert
  have h2 := hpsd (y - x)
  linarith

theorem minNormCheck_spec (G : Mat α) (a : Vec α) (h : minNormCheck G a = true) :
    a.length = G.length ∧ (∀ x ∈ a, 0 ≤ x) ∧ a.sum = 1 ∧
      ∀ x ∈ matVec G a, dot a (matVec G a) ≤ x := by
  simp only [minNormCheck, Bool.and_eq_true, decide_eq_true_eq, List.all_eq_true, beq_iff_eq] at h
  obtain ⟨⟨⟨h1, h2⟩, h3⟩, h4⟩ := h
  exact ⟨h1, h2, h3, h4⟩

theorem minNormCheck_fn (G : Mat α) (m : Nat) (hGl : G.length = m) (a : Vec α)
    (h : minNormCheck G a = true) :
    InSimplex a m ∧ ∀ i : Fin m, toFn m a ⬝ᵥ toMat m m G *ᵥ toFn m a ≤ (toMat m m G *ᵥ toFn m a) i := by
  obtain ⟨h1, h2, h3, h4⟩ := minNormCheck_spec G a h
  have hl : a.length = m := by omega
  refine ⟨⟨hl, h2, h3⟩, fun i => ?_⟩
  rw [← toFn_matVec m m G a hl.le, ← dot_eq_left m a _ hl.le, toFn_apply]
  exact h4 _ (getD_mem _ 0 i (by rw [matVec_length, hGl]; exact i.2))

theorem minnorm_cert (G : Mat α) (m : Nat) (hG : SymmSquare G m) (hpsd : PosSemidef G m)
    (a : Vec α) (h : minNormCheck G a = true) :
    InSimplex a m ∧ ∀ b, InSimplex b m → qf G a ≤ qf G b := by
  obtain ⟨ha, hcert⟩ := minNormCheck_fn G m hG.1 a h
  refine ⟨ha, fun b hb => ?_⟩
  obtain ⟨b1, b2, b3⟩ := inSimplex_fn hb
  rw [qf_eq m G a ha.1.le, qf_eq m G b b1.le]
  exact simplex_min_fn _ (toMat_symm m G hG) (psd_fn m G hpsd) _ _ b2 b3 hcert

/-! ### MGDA non-conflict allowance -/

theorem nonconflict_fn {m n : Nat} (B : Matrix (Fin m) (Fin n) α) (x xs : Fin m → α)
    (hx0 : ∀ i, 0 ≤ x i) (hx1 : ∑ i, x i = 1)
    (hcert : ∀ k, xs ⬝ᵥ (B * Bᵀ) *ᵥ xs ≤ ((B * Bᵀ) *ᵥ xs) k) (i : Fin m)
    (hneg : B i ⬝ᵥ (x ᵥ* B) < 0) :
    (B i ⬝ᵥ (x ᵥ* B)) * (B i ⬝ᵥ (x ᵥ* B)) ≤
      (B i ⬝ᵥ B i) * (x ⬝ᵥ (B * Bᵀ) *ᵥ x - xs ⬝ᵥ (B * Bᵀ) *ᵥ xs) := by
  have hrow : ∀ k, ((B * Bᵀ) *ᵥ xs) k = B k ⬝ᵥ (xs ᵥ* B) := by
    intro k
    rw [← mulVec_mulVec, mulVec_transpose]
    rfl
  simp only [hrow, qfF_gram] at hcert ⊢
  generalize hX : x ᵥ* B = X at *
  generalize hS : xs ᵥ* B = S at *
  have hμ : 0 ≤ S ⬝ᵥ S := dotProduct_self_nonneg' S
  have h1 := hcert i
  have h2 : S ⬝ᵥ S ≤ X ⬝ᵥ S := by
    rw [← hX, ← dotProduct_mulVec]
    exact simplex_dot_ge x (B *ᵥ S) hx0 hx1 _ hcert
  have hcs : (B i ⬝ᵥ (X - S)) ^ 2 ≤ (B i ⬝ᵥ B i) * ((X - S) ⬝ᵥ (X - S)) := by
    have := Finset.sum_mul_sq_le_sq_mul_sq Finset.univ (B i) (X - S)
    simpa [dotProduct, pow_two] using this
  have hD : (X - S) ⬝ᵥ (X - S) = X ⬝ᵥ X - 2 * (X ⬝ᵥ S) + S ⬝ᵥ S := by
    simp only [sub_dotProduct, dotProduct_sub]
    rw [dotProduct_comm S X]; ring
  have hq : B i ⬝ᵥ (X - S) = B i ⬝ᵥ X - B i ⬝ᵥ S := dotProduct_sub _ _ _
  have huu : 0 ≤ B i ⬝ᵥ B i := dotProduct_self_nonneg' _
  generalize B i ⬝ᵥ X = p at *
  generalize B i ⬝ᵥ S = r at *
  generalize B i ⬝ᵥ B i = uu at *
  generalize X ⬝ᵥ X = xx at *
  generalize X ⬝ᵥ S = xs' at *
  generalize S ⬝ᵥ S = μ at *
  rw [hq, hD] at hcs
  have h3 : p * p ≤ (p - r) ^ 2 := by nlinarith [mul_nonneg (neg_nonneg.2 hneg.le) (le_trans hμ h1)]
  have h4 : uu * (xx - 2 * xs' + μ) ≤ uu * (xx - μ) := mul_le_mul_of_nonneg_left (by linarith) huu
  linarith

theorem mgda_nonconflict' (J : Mat α) (m n : Nat) (hJ : MatWF J m n) (a astar : Vec α)
    (ha : InSimplex a m) (hstar : minNormCheck (gram J) astar = true) (i : Nat) (hi : i < m)
    (hneg : dot (J.getD i []) (combine n J a) < 0) :
    dot (J.getD i []) (combine n J a) * dot (J.getD i []) (combine n J a) ≤
      dot (J.getD i []) (J.getD i []) * (qf (gram J) a - qf (gram J) astar) := by
  have hGl : (gram J).length = m := by rw [gram_length, hJ.1]
  obtain ⟨hs, hcert⟩ := minNormCheck_fn (gram J) m hGl astar hstar
  obtain ⟨a1, a2, a3⟩ := inSimplex_fn ha
  have hrow := row_length J m n hJ i hi
  rw [toMat_gram J m n hJ] at hcert
  have e1 : dot (J.getD i []) (combine n J a) =
      toMat m n J ⟨i, hi⟩ ⬝ᵥ (toFn m a ᵥ* toMat m n J) := by
    rw [dot_eq_left n _ _ hrow.le, toFn_combine J m n hJ a a1]
    rfl
  have e2 : dot (J.getD i []) (J.getD i []) = toMat m n J ⟨i, hi⟩ ⬝ᵥ toMat m n J ⟨i, hi⟩ := by
    rw [dot_eq_left n _ _ hrow.le]
    rfl
  rw [e1] at hneg
  rw [e1, e2, qf_eq m _ a a1.le, qf_eq m _ astar hs.1.le, toMat_gram J m n hJ]
  exact nonconflict_fn (toMat m n J) (toFn m a) (toFn m astar) a2 a3 hcert ⟨i, hi⟩ hneg

/-! ### facts about the chosen vertex -/

/-- `αᵀ G e_t = (G α)_t` -/
theorem dot_matVec_oneHot (G : Mat α) (m : Nat) (hG : SymmSquare G m) (a : Vec α) (ha : a.length = m)
    (t : Nat) (ht : t < m) : dot a (matVec G (oneHot m t)) = (matVec G a).getD t 0 := by
  rw [dot_eq_left m a _ ha.le, toFn_matVec m m G _ (oneHot_length m t).le, toFn_oneHot_single m t ht,
    qfF_symm _ (toMat_symm m G hG) (Pi.single ⟨t, ht⟩ 1) (toFn m a), single_one_dotProduct,
    ← toFn_matVec m m G a ha.le]
  rfl

/-- the vertex minimises the linearisation: `αᵀGe_t ≤ b'ᵀGα` for every `b'` in the simplex -/
theorem fw_aprime_le (G : Mat α) (m : Nat) (hm : 0 < m) (hG : SymmSquare G m) (a : Vec α)
    (ha : a.length = m) (b : Vec α) (hb : InSimplex b m) :
    dot a (matVec G (fwE G a)) ≤ dot b (matVec G a) := by
  obtain ⟨ht, hmin⟩ := fwT_spec G m hm hG.1 a
  obtain ⟨b1, b2, b3⟩ := inSimplex_fn hb
  unfold fwE
  rw [ha, dot_matVec_oneHot G m hG a ha _ ht, dot_eq_left m b _ b1.le]
  exact simplex_dot_ge _ _ b2 b3 _ fun i => hmin i i.2

theorem qf_convex (G : Mat α) (m : Nat) (hG : SymmSquare G m) (hpsd : PosSemidef G m) (a b : Vec α)
    (ha : a.length = m) (hb : b.length = m) :
    qf G a + 2 * (dot b (matVec G a) - dot a (matVec G a)) ≤ qf G b := by
  rw [qf_eq m G a ha.le, qf_eq m G b hb.le, dot_eq_left m b _ hb.le, dot_eq_left m a _ ha.le,
    toFn_matVec m m G a ha.le, qfF_expand _ (toMat_symm m G hG) (toFn m b) (toFn m a),
    sub_dotProduct]
  have := psd_fn m G hpsd (toFn m b - toFn m a)
  linarith

theorem hs_fn (G : Mat α) (m : Nat) (s2 : α) (hs : ∀ v : Vec α, v.length = m → qf G v ≤ s2 * dot v v)
    (f : Fin m → α) : f ⬝ᵥ toMat m m G *ᵥ f ≤ s2 * (f ⬝ᵥ f) := by
  have := hs (List.ofFn f) (by simp)
  rwa [qf_eq m G _ (by simp), dot_eq_left m _ _ (by simp), toFn_ofFn] at this

theorem s2_nonneg (G : Mat α) (m : Nat) (hm : 0 < m) (hpsd : PosSemidef G m) (s2 : α)
    (hs : ∀ v : Vec α, v.length = m → qf G v ≤ s2 * dot v v) : 0 ≤ s2 := by
  have h1 := hs_fn G m s2 hs (Pi.single ⟨0, hm⟩ 1)
  have h2 := psd_fn m G hpsd (Pi.single ⟨0, hm⟩ 1)
  have h3 : (Pi.single (⟨0, hm⟩ : Fin m) (1 : α)) ⬝ᵥ Pi.single ⟨0, hm⟩ 1 = 1 := by
    rw [single_one_dotProduct]; simp
  rw [h3, mul_one] at h1
  linarith

theorem fw_d_le (G : Mat α) (m : Nat) (hm : 0 < m) (hG : SymmSquare G m) (hpsd : PosSemidef G m)
    (s2 : α) (hs : ∀ v : Vec α, v.length = m → qf G v ≤ s2 * dot v v)
    (a e : Vec α) (ha : InSimplex a m) (he : InSimplex e m) :
    dot a (matVec G a) + dot e (matVec G e) - 2 * dot a (matVec G e) ≤ 2 * s2 := by
  obtain ⟨a1, a2, a3⟩ := inSimplex_fn ha
  obtain ⟨e1, e2, e3⟩ := inSimplex_fn he
  have h := hs_fn G m s2 hs (toFn m e - toFn m a)
  have hs0 := s2_nonneg G m hm hpsd s2 hs
  have hn : (toFn m e - toFn m a) ⬝ᵥ (toFn m e - toFn m a) ≤ 2 := by
    simp only [sub_dotProduct, dotProduct_sub]
    have := simplex_self_le_one _ a2 a3
    have := simplex_self_le_one _ e2 e3
    have := dotProduct_nonneg' _ _ e2 a2
    have := dotProduct_nonneg' _ _ a2 e2
    linarith
  simp only [mulVec_sub, sub_dotProduct, dotProduct_sub] at h hn
  rw [qfF_symm _ (toMat_symm m G hG) (toFn m a) (toFn m e)] at h
  rw [dot_eq_left m a _ a1.le, dot_eq_left m a _ a1.le,
    dot_eq_left m e _ e1.le, toFn_matVec m m G e e1.le, toFn_matVec m m G a a1.le]
  have := mul_le_mul_of_nonneg_left hn hs0
  linarith

/-- the per-iteration inequality behind the `O(1/K)` rate -/
theorem fw_step_bound (G : Mat α) (m : Nat) (hm : 0 < m) (hG : SymmSquare G m)
    (hpsd : PosSemidef G m) (s2 : α) (hs : ∀ v : Vec α, v.length = m → qf G v ≤ s2 * dot v v)
    (a b : Vec α) (ha : InSimplex a m) (hb : InSimplex b m) (γ : α) (hγ0 : 0 ≤ γ) (hγ1 : γ ≤ 1) :
    qf G (fwStep G a).1 - qf G b ≤ (1 - γ) * (qf G a - qf G b) + γ * γ * (4 * s2) / 2 := by
  have h1 := fwStep_le_phi G m hG hpsd a ha.1 γ hγ0 hγ1
  have h2 := fw_d_le G m hm hG hpsd s2 hs a (fwE G a) ha (fwE_inSimplex G m hm hG.1 a ha.1)
  have h3 := fw_aprime_le G m hm hG a ha.1 b hb
  have h4 := qf_convex G m hG hpsd a b ha.1 hb.1
  unfold fwPhi at h1
  have e : qf G a = dot a (matVec G a) := rfl
  rw [e] at h4 ⊢
  generalize dot a (matVec G (fwE G a)) = a' at *
  generalize dot a (matVec G a) = bb at *
  generalize dot (fwE G a) (matVec G (fwE G a)) = c at *
  generalize dot b (matVec G a) = ab at *
  generalize qf G b = fb at *
  have h5 : 0 ≤ γ * (2 * (bb - a') - (bb - fb)) := mul_nonneg hγ0 (by linarith)
  have h6 : 0 ≤ γ * γ * (2 * s2 - (bb + c - 2 * a')) := mul_nonneg (mul_nonneg hγ0 hγ0) (by linarith)
  linarith

/-! ### no early stop for `epsilon = 0`; the rate -/

theorem go_zero (G : Mat α) : ∀ (k : Nat) (a : Vec α) (mg : α),
    (mgdaWeights.go G 0 k a mg).1 = (fun a => (fwStep G a).1)^[k] a
  | 0, a, mg => by rw [mgdaWeights.go]; rfl
  | k + 1, a, mg => by
    rw [go_succ, if_neg (not_lt.mpr (by rw [fwStep_snd]; exact (fwG_range G a).1)), go_zero G k,
      Function.iterate_succ_apply]

theorem mgda_rate (G : Mat α) (m : Nat) (hm : 0 < m) (hG : SymmSquare G m) (hpsd : PosSemidef G m)
    (s2 : α) (hs : ∀ v : Vec α, v.length = m → qf G v ≤ s2 * dot v v) (K : Nat) (hK : 1 ≤ K)
    (b : Vec α) (hb : InSimplex b m) :
    qf G (mgdaWeights G m (1 / (m : α)) 0 K).1 - qf G b ≤ 8 * s2 / ((K : α) + 2) := by
  rw [mgdaWeights_eq, go_zero]
  have hsimp : ∀ k, InSimplex ((fun a => (fwStep G a).1)^[k] (List.replicate m (1 / (m : α)))) m := by
    intro k
    induction k with
    | zero => exact replicate_inSimplex m hm
    | succ k ih =>
      rw [Function.iterate_succ_apply']
      exact fwStep_inSimplex G m hm hG.1 _ ih
  have hs0 := s2_nonneg G m hm hpsd s2 hs
  have := fw_rec
    (fun k => qf G ((fun a => (fwStep G a).1)^[k] (List.replicate m (1 / (m : α)))) - qf G b)
    (4 * s2) (by linarith)
    (by
      intro k γ hγ0 hγ1
      simp only [Function.iterate_succ_apply']
      exact fw_step_bound G m hm hG hpsd s2 hs _ b (hsimp k) hb γ hγ0 hγ1)
    K hK
  have e : 2 * (4 * s2) / ((K : α) + 2) = 8 * s2 / ((K : α) + 2) := by ring
  rw [e] at this
  exact this

/-! ### two rows -/

theorem half_inSimplex : InSimplex (List.replicate 2 (1 / (2 : α))) 2 := by
  refine ⟨by simp, fun x hx => ?_, ?_⟩
  · rw [List.eq_of_mem_replicate hx]; positivity
  · simp [List.sum_replicate]
    rw [← two_mul, mul_inv_cancel₀ two_ne_zero]

theorem two_param (b : Vec α) (hb : InSimplex b 2) (t : Nat) (ht : t < 2) :
    ∃ g : α, g ≤ 1 ∧ b = vadd (smul (1 - g) (List.replicate 2 (1 / (2 : α)))) (smul g (oneHot 2 t)) := by
  obtain ⟨h1, h2, h3⟩ := hb
  match b, h1 with
  | [b0, b1], _ =>
    have hb0 : 0 ≤ b0 := h2 b0 (by simp)
    have hb1 : 0 ≤ b1 := h2 b1 (by simp)
    have hsum : b0 + b1 = 1 := by simpa using h3
    have ht' : t = 0 ∨ t = 1 := by omega
    rcases ht' with rfl | rfl
    · refine ⟨b0 - b1, by linarith, ?_⟩
      simp only [vadd, smul, oneHot, List.replicate, List.range_succ, List.range_zero, List.nil_append,
        List.cons_append, List.map_cons, List.map_nil, List.zipWith_cons_cons, List.zipWith_nil_left]
      congr 1
      · simp; linarith
      · congr 1; simp; linarith
    · refine ⟨b1 - b0, by linarith, ?_⟩
      simp only [vadd, smul, oneHot, List.replicate, List.range_succ, List.range_zero, List.nil_append,
        List.cons_append, List.map_cons, List.map_nil, List.zipWith_cons_cons, List.zipWith_nil_left]
      congr 1
      · simp; linarith
      · congr 1; simp; linarith

theorem two_rows_step (G : Mat α) (hG : SymmSquare G 2) (hpsd : PosSemidef G 2) (b : Vec α)
    (hb : InSimplex b 2) : qf G (fwStep G (List.replicate 2 (1 / (2 : α)))).1 ≤ qf G b := by
  have ha0 := half_inSimplex (α := α)
  generalize ha : List.replicate 2 (1 / (2 : α)) = a0 at *
  have hE : fwE G a0 = oneHot 2 (fwT G a0) := by unfold fwE; rw [ha0.1]
  obtain ⟨ht, _⟩ := fwT_spec G 2 (by norm_num) hG.1 a0
  obtain ⟨g, hg1, hbeq⟩ := two_param b hb (fwT G a0) ht
  rw [ha, ← hE] at hbeq
  rw [hbeq, qf_line G 2 hG a0 (fwE G a0) ha0.1 (by rw [fwE_length, ha0.1]) g, fwStep_qf G 2 hG a0 ha0.1]
  exact fwGamma_opt_line _ _ _
    (fw_d_nonneg G 2 hG hpsd a0 (fwE G a0) ha0.1 (by rw [fwE_length, ha0.1]))
    (fw_aprime_le G 2 (by norm_num) hG a0 ha0.1 a0 ha0) g hg1

theorem mgda_two_rows (G : Mat α) (hG : SymmSquare G 2) (hpsd : PosSemidef G 2) (epsilon : α)
    (K : Nat) (hK : 1 ≤ K) (b : Vec α) (hb : InSimplex b 2) :
    qf G (mgdaWeights G 2 (1 / 2) epsilon K).1 ≤ qf G b := by
  obtain ⟨k, rfl⟩ : ∃ k, K = k + 1 := ⟨K - 1, by omega⟩
  rw [mgdaWeights_eq]
  have := go_invariant_succ G epsilon (fun a => a = List.replicate 2 (1 / (2 : α)))
    (fun a => InSimplex a 2 ∧ ∀ b, InSimplex b 2 → qf G a ≤ qf G b)
    (by
      rintro a rfl
      exact ⟨fwStep_inSimplex G 2 (by norm_num) hG.1 _ half_inSimplex,
        fun b hb => two_rows_step G hG hpsd b hb⟩)
    (by
      rintro a ⟨h1, h2⟩
      exact ⟨fwStep_inSimplex G 2 (by norm_num) hG.1 a h1,
        fun b hb => (fwStep_mono G 2 hG hpsd a h1.1).trans (h2 b hb)⟩)
    k (List.replicate 2 (1 / (2 : α))) 1 rfl
  exact this.2 b hb

end Tjd.Agg
