/- helper lemmas for the Frank–Wolfe / min-norm theorems (C04, C18) -/
import Mathlib.Algebra.Order.Field.Basic
import TjdModel.Agg.Spec2
import TjdLemmas.QPLemmas
namespace Tjd.Agg

end Tjd.Agg
