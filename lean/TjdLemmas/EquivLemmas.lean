/- helper lemmas for TjdProps/C08.lean, C09.lean, C10.lean (equivariance / invariance).
   The lemmas live in EquivBase (lists, permutations, sums), EquivC08 (orthogonal change of coordinates,
   column layout), EquivConfig (ConFIG), EquivC09 (row scaling), EquivC10 (row permutations). -/
import Mathlib.Algebra.Order.Field.Basic
import TjdModel.Agg.Spec2
import TjdLemmas.QPLemmas
import TjdLemmas.EquivBase
import TjdLemmas.EquivC08
import TjdLemmas.EquivConfig
import TjdLemmas.EquivC09
import TjdLemmas.EquivC10
namespace Tjd.Agg

end Tjd.Agg
