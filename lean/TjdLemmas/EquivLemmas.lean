/- helper lemmas for TjdProps/C08.lean, C09.lean, C10.lean (equivariance / invariance) -/
import Mathlib.Algebra.Order.Field.Basic
import TjdModel.Agg.Spec2
import TjdLemmas.QPLemmas
namespace Tjd.Agg

end Tjd.Agg
