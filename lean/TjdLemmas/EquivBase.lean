/- basic list-level lemmas shared by the equivariance / invariance proofs (C08, C09, C10) -/
import Mathlib.Algebra.Order.Field.Basic
import Mathlib.Algebra.BigOperators.Fin
import Mathlib.Algebra.BigOperators.Group.List.Basic
import Mathlib.Data.List.Perm.Basic
import Mathlib.Tactic.Ring
import Mathlib.Tactic.Linarith
import Mathlib.Tactic.FieldSimp
import TjdModel.Agg.Spec2
import TjdLemmas.QPLemmas
namespace Tjd.Agg.Eqv
open Tjd Matrix
set_option linter.unusedSectionVars false
set_option linter.unusedSimpArgs false
set_option linter.unusedVariables false

section lists
variable {β : Type}

theorem getD_eq_getElem' (l : List β) (d : β) (i : Nat) (h : i < l.length) : l.getD i d = l[i] := by
  rw [List.getD_eq_getElem?_getD, List.getElem?_eq_getElem h, Option.getD_some]

theorem getD_congr_default (l : List β) (d d' : β) (i : Nat) (h : i < l.length) :
    l.getD i d = l.getD i d' := by
  rw [getD_eq_getElem' l d i h, getD_eq_getElem' l d' i h]

theorem getD_of_le (l : List β) (d : β) (i : Nat) (h : l.length ≤ i) : l.getD i d = d := by
  rw [List.getD_eq_getElem?_getD, List.getElem?_eq_none h, Option.getD_none]

theorem eq_map_range (v : List β) (d : β) : v = (List.range v.length).map (fun i => v.getD i d) := by
  apply List.ext_getElem (by simp)
  intro i h1 h2
  rw [List.getElem_map, List.getElem_range, getD_eq_getElem' v d i h1]

theorem eq_map_range' (v : List β) (n : Nat) (hn : v.length = n) (d : β) :
    v = (List.range n).map (fun i => v.getD i d) := by
  subst hn; exact eq_map_range v d

theorem permV_length [Inhabited β] (p : List Nat) (v : List β) : (permV p v).length = p.length := by
  simp [permV]

theorem permV_getElem [Inhabited β] (p : List Nat) (v : List β) (k : Nat) (hk : k < (permV p v).length) :
    (permV p v)[k] = v.getD (p[k]'(by simpa [permV] using hk)) default := by
  simp [permV]

theorem permV_getD [Inhabited β] (p : List Nat) (v : List β) (k : Nat) (hk : k < p.length) (d : β) :
    (permV p v).getD k d = v.getD p[k] default := by
  rw [getD_eq_getElem' _ d k (by rw [permV_length]; exact hk), permV_getElem]

theorem permV_perm [Inhabited β] (p : List Nat) (v : List β) (hp : p.Perm (List.range v.length)) :
    (permV p v).Perm v := by
  have h := List.Perm.map (fun i => v.getD i default) hp
  rw [← eq_map_range v default] at h
  exact h

theorem perm_lt {p : List Nat} {m : Nat} (hp : p.Perm (List.range m)) : ∀ i ∈ p, i < m := by
  intro i hi
  exact List.mem_range.mp (hp.mem_iff.mp hi)

theorem perm_length {p : List Nat} {m : Nat} (hp : p.Perm (List.range m)) : p.length = m := by
  rw [hp.length_eq, List.length_range]

theorem perm_nodup {p : List Nat} {m : Nat} (hp : p.Perm (List.range m)) : p.Nodup :=
  hp.nodup_iff.mpr List.nodup_range

theorem perm_inj {p : List Nat} {m : Nat} (hp : p.Perm (List.range m)) (a b : Nat) (ha : a < p.length)
    (hb : b < p.length) : p[a] = p[b] ↔ a = b :=
  (perm_nodup hp).getElem_inj_iff

theorem zipWith_map_self {γ δ ε : Type} (f : γ → δ → ε) (g : β → γ) (h : β → δ) (l : List β) :
    List.zipWith f (l.map g) (l.map h) = l.map (fun i => f (g i) (h i)) := by
  induction l with
  | nil => rfl
  | cons a l ih => simp [ih]

theorem zipIdx_map_eq_range {γ : Type} (l : List β) (F : β → Nat → γ) (d : β) :
    l.zipIdx.map (fun (x, i) => F x i) = (List.range l.length).map (fun i => F (l.getD i d) i) := by
  apply List.ext_getElem (by simp)
  intro i h1 h2
  have hi : i < l.length := by simpa using h1
  simp [List.getElem?_eq_getElem hi]

end lists

section semiring
variable {α : Type} [CommRing α]

theorem dot_map_map {β : Type} (f g : β → α) (l : List β) :
    dot (l.map f) (l.map g) = (l.map fun i => f i * g i).sum := by
  rw [dot, zipWith_map_self]

theorem dot_eq_range_sum (n : Nat) (x y : Vec α) (hx : x.length = n) (hy : y.length = n) (d d' : α) :
    dot x y = ((List.range n).map fun i => x.getD i d * y.getD i d').sum := by
  conv_lhs => rw [eq_map_range' x n hx d, eq_map_range' y n hy d']
  exact dot_map_map _ _ _

theorem dot_permV [Inhabited α] (p : List Nat) (n : Nat) (hp : p.Perm (List.range n)) (x y : Vec α)
    (hx : x.length = n) (hy : y.length = n) : dot (permV p x) (permV p y) = dot x y := by
  rw [permV, permV, dot_map_map, dot_eq_range_sum n x y hx hy default default]
  exact (hp.map _).sum_eq

theorem dot_smul_left (c : α) : ∀ (x y : Vec α), dot (smul c x) y = c * dot x y
  | [], y => by simp [smul, dot_nil_left]
  | a :: x, [] => by simp [smul, dot_nil_right]
  | a :: x, b :: y => by
    have := dot_smul_left c x y
    simp only [smul] at this ⊢
    rw [List.map_cons, dot_cons_cons, dot_cons_cons, this]; ring

theorem dot_comm_ring (x y : Vec α) : dot x y = dot y x := by
  rw [dot_eq_left x.length x y le_rfl, dot_eq_right x.length y x le_rfl, dotProduct_comm]

theorem dot_smul_right (c : α) (x y : Vec α) : dot x (smul c y) = c * dot x y := by
  rw [dot_comm_ring, dot_smul_left, dot_comm_ring]

theorem smul_smul' (a b : α) (x : Vec α) : smul a (smul b x) = smul (a * b) x := by
  simp [smul, mul_assoc]

theorem smul_vsub (c : α) : ∀ (x y : Vec α), smul c (vsub x y) = vsub (smul c x) (smul c y)
  | [], y => by simp [smul, vsub]
  | a :: x, [] => by simp [smul, vsub]
  | a :: x, b :: y => by
    have := smul_vsub c x y
    simp only [smul, vsub] at this ⊢
    simp [this, mul_sub]

theorem smul_vadd (c : α) : ∀ (x y : Vec α), smul c (vadd x y) = vadd (smul c x) (smul c y)
  | [], y => by simp [smul, vadd]
  | a :: x, [] => by simp [smul, vadd]
  | a :: x, b :: y => by
    have := smul_vadd c x y
    simp only [smul, vadd] at this ⊢
    simp [this, mul_add]

end semiring

section field
variable {α : Type} [Field α] [LinearOrder α] [IsStrictOrderedRing α]

theorem vec_ext (n : Nat) (x y : Vec α) (hx : x.length = n) (hy : y.length = n)
    (h : ∀ k, k < n → x.getD k 0 = y.getD k 0) : x = y := by
  apply toFn_injective n x y hx hy
  funext k
  exact h k k.2

theorem foldl_vadd_getD_list (n k : Nat) : ∀ (xs : List (Vec α)) (acc : Vec α),
    acc.length = n → (∀ x ∈ xs, x.length = n) →
      (xs.foldl vadd acc).getD k 0 = acc.getD k 0 + (xs.map (·.getD k 0)).sum
  | [], acc, _, _ => by simp
  | x :: xs, acc, hacc, hall => by
    have hx : x.length = n := hall x (by simp)
    rw [List.foldl_cons, foldl_vadd_getD_list n k xs (vadd acc x)
      (by rw [vadd_length _ _ (by omega)]; exact hacc) (fun y hy => hall y (by simp [hy])),
      vadd_getD _ _ (by omega)]
    simp [add_assoc]

theorem vsum_getD (n k : Nat) (xs : List (Vec α)) (hall : ∀ x ∈ xs, x.length = n) :
    (vsum n xs).getD k 0 = (xs.map (·.getD k 0)).sum := by
  rw [vsum, foldl_vadd_getD_list n k xs (zeros n) (zeros_length n) hall, zeros_getD, zero_add]

theorem vsum_perm (n : Nat) (xs ys : List (Vec α)) (h : xs.Perm ys) (hall : ∀ x ∈ xs, x.length = n) :
    vsum n xs = vsum n ys := by
  have hall' : ∀ y ∈ ys, y.length = n := fun y hy => hall y (h.mem_iff.mpr hy)
  apply vec_ext n _ _ (vsum_length n xs hall) (vsum_length n ys hall')
  intro k _
  rw [vsum_getD n k xs hall, vsum_getD n k ys hall']
  exact (h.map _).sum_eq

theorem zipWith_smul_length (n : Nat) (J : Mat α) (hJ : ∀ row ∈ J, row.length = n) (w : Vec α) :
    ∀ x ∈ List.zipWith smul w J, x.length = n := by
  intro x hx
  obtain ⟨i, hi, rfl⟩ := List.mem_iff_getElem.mp hx
  rw [List.getElem_zipWith, smul_length]
  exact hJ _ (List.getElem_mem _)

theorem combine_length (n : Nat) (J : Mat α) (hJ : ∀ row ∈ J, row.length = n) (w : Vec α) :
    (combine n J w).length = n :=
  vsum_length n _ (zipWith_smul_length n J hJ w)

theorem combine_getD (J : Mat α) (m n : Nat) (hJ : MatWF J m n) (w : Vec α) (hw : w.length = m)
    (k : Nat) (hk : k < n) :
    (combine n J w).getD k 0 = ∑ i : Fin m, w.getD i 0 * (J.getD i []).getD k 0 := by
  have := congrFun (toFn_combine J m n hJ w hw) ⟨k, hk⟩
  exact this

theorem combine_eq_vsum_range (J : Mat α) (m n : Nat) (hJ : MatWF J m n) (w : Vec α)
    (hw : w.length = m) :
    combine n J w = vsum n ((List.range m).map fun i => smul (w.getD i 0) (J.getD i [])) := by
  rw [combine]
  congr 1
  conv_lhs => rw [eq_map_range' w m hw 0, eq_map_range' J m hJ.1 []]
  exact zipWith_map_self _ _ _ _

theorem getD_row_length (J : Mat α) (m n : Nat) (hJ : MatWF J m n) (i : Nat) (hi : i < m) :
    (J.getD i []).length = n :=
  hJ.2 _ (getD_mem J [] i (by rw [hJ.1]; exact hi))

/-- two well-formed matrices with the same entries are equal -/
theorem mat_ext (m n : Nat) (A B : Mat α) (hA : MatWF A m n) (hB : MatWF B m n)
    (h : ∀ i j, i < m → j < n → (A.getD i []).getD j 0 = (B.getD i []).getD j 0) : A = B := by
  apply List.ext_getElem (by rw [hA.1, hB.1])
  intro i h1 h2
  have hi : i < m := by rw [← hA.1]; exact h1
  have e1 := getD_eq_getElem' A [] i h1
  have e2 := getD_eq_getElem' B [] i h2
  rw [← e1, ← e2]
  apply vec_ext n _ _ (getD_row_length A m n hA i hi) (getD_row_length B m n hB i hi)
  intro j hj
  exact h i j hi hj

end field
end Tjd.Agg.Eqv
