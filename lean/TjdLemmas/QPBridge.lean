/- list ↔ `Fin m → α` bridge for the QP / KKT / Gramian lemmas (helper for TjdProps/C03.lean) -/
import Mathlib.Algebra.Order.Field.Basic
import Mathlib.Algebra.BigOperators.Fin
import Mathlib.Algebra.Order.BigOperators.Group.Finset
import Mathlib.Data.Matrix.Mul
import Mathlib.Tactic.Ring
import Mathlib.Tactic.Linarith
import TjdModel.Agg.Spec
namespace Tjd.Agg
open Tjd Matrix

section bridge
variable {α : Type}

/-- a list read as a function on `Fin m` (zero-padded) -/
def toFn [Zero α] (m : Nat) (x : Vec α) : Fin m → α := fun i => x.getD i 0

/-- a list of rows read as an `m × n` matrix (zero-padded) -/
def toMat [Zero α] (m n : Nat) (G : Mat α) : Matrix (Fin m) (Fin n) α :=
  fun i j => (G.getD i []).getD j 0

theorem toFn_apply [Zero α] (m : Nat) (x : Vec α) (i : Fin m) : toFn m x i = x.getD i 0 := rfl

theorem toMat_apply [Zero α] (m n : Nat) (G : Mat α) (i : Fin m) (j : Fin n) :
    toMat m n G i j = (G.getD i []).getD j 0 := rfl

theorem toFn_injective [Zero α] (m : Nat) (x y : Vec α) (hx : x.length = m) (hy : y.length = m)
    (h : toFn m x = toFn m y) : x = y := by
  apply List.ext_getElem (by omega)
  intro i h1 h2
  have := congrFun h ⟨i, by omega⟩
  simp only [toFn, List.getD_eq_getElem?_getD] at this
  rw [List.getElem?_eq_getElem h1, List.getElem?_eq_getElem h2] at this
  simpa using this

theorem toFn_ofFn [Zero α] (m : Nat) (f : Fin m → α) : toFn m (List.ofFn f) = f := by
  funext i
  simp [toFn, List.getD_eq_getElem?_getD]

variable [Semiring α]

theorem dot_nil_left (y : Vec α) : dot ([] : Vec α) y = 0 := by simp [dot]
theorem dot_nil_right (x : Vec α) : dot x ([] : Vec α) = 0 := by simp [dot]
theorem dot_cons_cons (a b : α) (x y : Vec α) : dot (a :: x) (b :: y) = a * b + dot x y := by
  simp [dot]

theorem dot_eq_sum_left : ∀ (m : Nat) (x y : Vec α), x.length ≤ m →
    dot x y = ∑ i : Fin m, x.getD i 0 * y.getD i 0
  | m, [], y, _ => by simp [dot_nil_left]
  | 0, _ :: _, _, h => by simp at h
  | m + 1, a :: x, [], _ => by simp [dot_nil_right]
  | m + 1, a :: x, b :: y, h => by
    rw [dot_cons_cons, Fin.sum_univ_succ, dot_eq_sum_left m x y (by simpa using h)]
    simp

theorem dot_eq_sum_right : ∀ (m : Nat) (x y : Vec α), y.length ≤ m →
    dot x y = ∑ i : Fin m, x.getD i 0 * y.getD i 0
  | m, x, [], _ => by simp [dot_nil_right]
  | 0, _, _ :: _, h => by simp at h
  | m + 1, [], b :: y, _ => by simp [dot_nil_left]
  | m + 1, a :: x, b :: y, h => by
    rw [dot_cons_cons, Fin.sum_univ_succ, dot_eq_sum_right m x y (by simpa using h)]
    simp

theorem dot_eq_left (m : Nat) (x y : Vec α) (h : x.length ≤ m) :
    dot x y = toFn m x ⬝ᵥ toFn m y := dot_eq_sum_left m x y h

theorem dot_eq_right (m : Nat) (x y : Vec α) (h : y.length ≤ m) :
    dot x y = toFn m x ⬝ᵥ toFn m y := dot_eq_sum_right m x y h

theorem matVec_length (G : Mat α) (w : Vec α) : (matVec G w).length = G.length := by
  simp [matVec]

theorem matVec_getD (G : Mat α) (w : Vec α) (i : Nat) :
    (matVec G w).getD i 0 = dot (G.getD i []) w := by
  simp only [matVec, List.getD_eq_getElem?_getD, List.getElem?_map]
  cases h : G[i]? <;> simp [dot_nil_left]

theorem toFn_matVec (k m : Nat) (G : Mat α) (w : Vec α) (h : w.length ≤ m) :
    toFn k (matVec G w) = toMat k m G *ᵥ toFn m w := by
  funext i
  rw [toFn_apply, matVec_getD, dot_eq_right m _ _ h]
  rfl

theorem qf_eq (m : Nat) (G : Mat α) (v : Vec α) (h : v.length ≤ m) :
    qf G v = toFn m v ⬝ᵥ toMat m m G *ᵥ toFn m v := by
  rw [qf, dot_eq_left m _ _ h, toFn_matVec m m G v h]

theorem list_sum_eq_sum : ∀ (m : Nat) (l : List α), l.length ≤ m →
    l.sum = ∑ i : Fin m, l.getD i 0
  | m, [], _ => by simp
  | 0, _ :: _, h => by simp at h
  | m + 1, a :: l, h => by
    rw [List.sum_cons, Fin.sum_univ_succ, list_sum_eq_sum m l (by simpa using h)]
    simp

end bridge

section ring
variable {α : Type} [Ring α]

theorem toFn_vadd (m : Nat) (x y : Vec α) (h : x.length = y.length) :
    toFn m (vadd x y) = toFn m x + toFn m y := by
  funext i
  simp only [toFn, vadd, Pi.add_apply, List.getD_eq_getElem?_getD, List.getElem?_zipWith]
  by_cases hi : (i : Nat) < x.length
  · have hi' : (i : Nat) < y.length := by omega
    simp [List.getElem?_eq_getElem hi, List.getElem?_eq_getElem hi']
  · have hi' : ¬ (i : Nat) < y.length := by omega
    simp [List.getElem?_eq_none (not_lt.mp hi), List.getElem?_eq_none (not_lt.mp hi')]

theorem toFn_vsub (m : Nat) (x y : Vec α) (h : x.length = y.length) :
    toFn m (vsub x y) = toFn m x - toFn m y := by
  funext i
  simp only [toFn, vsub, Pi.sub_apply, List.getD_eq_getElem?_getD, List.getElem?_zipWith]
  by_cases hi : (i : Nat) < x.length
  · have hi' : (i : Nat) < y.length := by omega
    simp [List.getElem?_eq_getElem hi, List.getElem?_eq_getElem hi']
  · have hi' : ¬ (i : Nat) < y.length := by omega
    simp [List.getElem?_eq_none (not_lt.mp hi), List.getElem?_eq_none (not_lt.mp hi')]

theorem toFn_smul (m : Nat) (c : α) (x : Vec α) :
    toFn m (smul c x) = c • toFn m x := by
  funext i
  simp only [toFn, smul, Pi.smul_apply, smul_eq_mul, List.getD_eq_getElem?_getD, List.getElem?_map]
  cases h : x[(i : Nat)]? <;> simp

theorem vadd_length (x y : Vec α) (h : x.length = y.length) : (vadd x y).length = x.length := by
  simp [vadd, h]

theorem vsub_length (x y : Vec α) (h : x.length = y.length) : (vsub x y).length = x.length := by
  simp [vsub, h]

theorem smul_length (c : α) (x : Vec α) : (smul c x).length = x.length := by
  simp [smul]

end ring
end Tjd.Agg
