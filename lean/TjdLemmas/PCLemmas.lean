/- helper lemmas for PCGrad / GradDrop / CAGrad / softmax (C18) -/
import Mathlib.Algebra.Order.Field.Basic
import TjdModel.Agg.Spec2
import TjdLemmas.QPLemmas
namespace Tjd.Agg

end Tjd.Agg
