/- helper lemmas for PCGrad / GradDrop / CAGrad / softmax (C18) -/
import Mathlib.Algebra.Order.Field.Basic
import Mathlib.Tactic.Ring
import Mathlib.Tactic.Linarith
import Mathlib.Tactic.FieldSimp
import Mathlib.Tactic.Positivity
import TjdModel.Agg.Spec2
import TjdLemmas.QPLemmas
import TjdLemmas.GramLemmas
namespace Tjd.Agg
open Tjd Matrix
set_option linter.unusedSectionVars false
set_option linter.unusedSimpArgs false
set_option linter.unusedVariables false

variable {α : Type} [Field α] [LinearOrder α] [IsStrictOrderedRing α]

/-! ### softmax -/

theorem sum_map_div (l : List α) (s : α) : (l.map (· / s)).sum = l.sum / s := by
  induction l with
  | nil => simp
  | cons a l ih => simp [ih, add_div]

theorem list_sum_pos : ∀ (l : List α), l ≠ [] → (∀ x ∈ l, 0 < x) → 0 < l.sum
  | [], h, _ => absurd rfl h
  | [a], _, hp => by simpa using hp a (by simp)
  | a :: b :: l, _, hp => by
    rw [List.sum_cons]
    exact add_pos (hp a (by simp)) (list_sum_pos (b :: l) (by simp) fun x hx => hp x (by simp [hx]))

theorem softmax_spec (e : α → α) (he : ∀ x, 0 < e x) (xs : Vec α) (hx : xs ≠ []) :
    (∀ w ∈ softmaxW e xs, 0 < w) ∧ (softmaxW e xs).sum = 1 ∧
      (softmaxW e xs).length = xs.length := by
  have hpos : 0 < (xs.map e).sum := by
    apply list_sum_pos _ (by simpa using hx)
    intro x hx
    obtain ⟨y, _, rfl⟩ := List.mem_map.mp hx
    exact he y
  refine ⟨?_, ?_, by simp [softmaxW]⟩
  · intro w hw
    simp only [softmaxW, List.mem_map] at hw
    obtain ⟨_, ⟨y, _, rfl⟩, rfl⟩ := hw
    exact div_pos (he y) hpos
  · show ((xs.map e).map (· / (xs.map e).sum)).sum = 1
    rw [sum_map_div, div_self hpos.ne']

/-! ### GradDrop -/

theorem graddrop_coord [Inhabited α] (J : Mat α) (leak U : Vec α) (n c : Nat) (hc : c < n) :
    let column := col J c
    let s := column.sum
    let a := (column.map absV).sum
    let P := (1 + s / a) / (1 + 1)
    (graddrop J leak U n).getD c 0 =
      (column.zipIdx.map fun (xi : α × Nat) =>
        let keep : α :=
          if a = 0 then 0
          else if U.getD c 0 < P then (if 0 < xi.1 then 1 else 0)
          else if P < U.getD c 0 then (if xi.1 < 0 then 1 else 0)
          else 0
        (leak.getD xi.2 0 + (1 - leak.getD xi.2 0) * keep) * xi.1).sum := by
  intro column s a P
  unfold graddrop
  rw [List.getD_eq_getElem?_getD, List.getElem?_map, List.getElem?_range hc]
  simp only [Option.map_some, Option.getD_some]
  congr 1
  apply List.map_congr_left
  rintro ⟨x, i⟩ _
  show (leak.getD i 0 + (1 - leak.getD i 0) * _) * x = (leak.getD i 0 + (1 - leak.getD i 0) * _) * x
  congr 3
  by_cases ha : a = 0
  · simp [a, column, s] at ha ⊢
    simp [ha]
  · have ha' : ¬ (List.map absV (col J c)).sum = 0 := ha
    simp only [ha', if_false, ha, a, column, s, P]
    generalize List.getD U c 0 = u
    generalize (1 + (col J c).sum / (List.map absV (col J c)).sum) / (1 + 1) = p
    rcases lt_trichotomy u p with h | h | h
    · have h' := lt_asymm h
      rcases lt_trichotomy x 0 with hx | hx | hx
      · have hx' := lt_asymm hx
        simp [h, h', hx, hx']
      · simp [h, h', hx]
      · have hx' := lt_asymm hx
        simp [h, h', hx, hx']
    · subst h; simp
    · have h' := lt_asymm h
      rcases lt_trichotomy x 0 with hx | hx | hx
      · have hx' := lt_asymm hx
        simp [h, h', hx, hx']
      · simp [h, h', hx]
      · have hx' := lt_asymm hx
        simp [h, h', hx, hx']

/-! ### CAGrad -/

theorem cagrad_closed (J : Mat α) (m n : Nat) (hm : 0 < m) (hJ : MatWF J m n)
    (c g0n gwn normEps : α) (w : Vec α) (hw : w.length = m) :
    combine n J (cagradWeights m c g0n gwn normEps w) =
      if normEps ≤ gwn then vadd (meanRow n J) (smul (c * g0n / gwn) (combine n J w))
      else zeros n := by
  unfold cagradWeights
  split_ifs with h
  · have hmean : (meanRow n J).length = n := combine_length J m n hJ _
    have hl : (meanRow n J).length = (smul (c * g0n / gwn) (combine n J w)).length := by
      rw [hmean, smul_length, combine_length J m n hJ]
    apply toFn_injective n _ _ (combine_length J m n hJ _) (by rw [vadd_length _ _ hl, hmean])
    rw [toFn_combine J m n hJ _ (by simp), toFn_vadd n _ _ hl, toFn_smul, meanRow,
      toFn_combine J m n hJ _ (by simp [hJ.1]), toFn_combine J m n hJ w hw, ← smul_vecMul,
      ← add_vecMul]
    congr 1
    funext i
    simp [toFn, List.getD_eq_getElem?_getD, List.getElem?_range i.2, List.getElem?_replicate, hJ.1]
  · exact combine_zeros J m n hJ

theorem cagrad_dist (J : Mat α) (m n : Nat) (hm : 0 < m) (hJ : MatWF J m n)
    (c g0n gwn normEps s : α) (w : Vec α) (hw : w.length = m) (hge : normEps ≤ gwn) (hgw : 0 < gwn)
    (hs : 0 < s)
    (h0 : dot (meanRow n J) (meanRow n J) = s * s * (g0n * g0n))
    (h1 : dot (combine n J w) (combine n J w) = s * s * (gwn * gwn)) :
    let d := vsub (combine n J (cagradWeights m c g0n gwn normEps w)) (meanRow n J)
    dot d d = c * c * dot (meanRow n J) (meanRow n J) := by
  intro d
  have hmean : (meanRow n J).length = n := combine_length J m n hJ _
  have hgwl : (combine n J w).length = n := combine_length J m n hJ _
  have hl : (meanRow n J).length = (smul (c * g0n / gwn) (combine n J w)).length := by
    rw [hmean, smul_length, hgwl]
  have hl2 : (vadd (meanRow n J) (smul (c * g0n / gwn) (combine n J w))).length =
      (meanRow n J).length := vadd_length _ _ hl
  have hd : toFn n d = (c * g0n / gwn) • toFn n (combine n J w) := by
    show toFn n (vsub _ _) = _
    rw [cagrad_closed J m n hm hJ c g0n gwn normEps w hw, if_pos hge, toFn_vsub n _ _ hl2,
      toFn_vadd n _ _ hl, toFn_smul]
    simp
  have hdl : d.length = n := by
    show (vsub _ _).length = n
    rw [cagrad_closed J m n hm hJ c g0n gwn normEps w hw, if_pos hge, vsub_length _ _ hl2, hl2,
      hmean]
  rw [dot_eq_left n d d hdl.le, hd, smul_dotProduct, dotProduct_smul, ← dot_eq_left n _ _ hgwl.le,
    h1, h0]
  simp only [smul_eq_mul]
  field_simp

/-! ### PCGrad -/

/-- the coordinate update of the weight vector -/
def pcUpd (cw : Vec α) (j : Nat) (δ : α) : Vec α :=
  cw.zipIdx.map fun (x, k) => if k = j then x - δ else x

/-- the body of the inner loop of `pcgradWeights` -/
def pcStep (G : Mat α) (i : Nat) (st : Vec α × α) (j : Nat) : Vec α × α :=
  if j = i then st else
    let cw := st.1
    let ip := dot (G.getD j []) cw
    let mg := vmin [st.2, absV ip] 1
    if ip < 0 then (pcUpd cw j (ip / (G.getD j []).getD j 0), mg) else (cw, mg)

/-- the body of the loop of `pcRow` -/
def pcRowStep (J : Mat α) (i : Nat) (g : Vec α) (j : Nat) : Vec α :=
  if j = i then g else
    let gj := J.getD j []
    let ip := dot gj g
    if ip < 0 then vsub g (smul (ip / dot gj gj) gj) else g

theorem pcRow_eq (J : Mat α) (i : Nat) (perm : List Nat) :
    pcRow J i perm = perm.foldl (pcRowStep J i) (J.getD i []) := rfl

theorem pcgradWeights_fst (G : Mat α) (perms : List (List Nat)) :
    (pcgradWeights G perms).1 =
      vsum G.length ((List.range G.length).map fun i =>
        ((perms.getD i []).foldl (pcStep G i) (oneHot G.length i, 1)).1) := by
  unfold pcgradWeights
  simp only [List.map_map]
  rfl

theorem pcUpd_length (cw : Vec α) (j : Nat) (δ : α) : (pcUpd cw j δ).length = cw.length := by
  simp [pcUpd]

theorem toFn_pcUpd (m : Nat) (cw : Vec α) (hcw : cw.length = m) (j : Nat) (hj : j < m) (δ : α) :
    toFn m (pcUpd cw j δ) = toFn m cw - δ • Pi.single (⟨j, hj⟩ : Fin m) 1 := by
  funext k
  have hk : (k : Nat) < cw.length := by rw [hcw]; exact k.2
  simp only [toFn, pcUpd, List.getD_eq_getElem?_getD, List.getElem?_map, List.getElem?_zipIdx,
    List.getElem?_eq_getElem hk, Pi.sub_apply, Pi.smul_apply, smul_eq_mul, Option.map_some,
    Option.getD_some, Nat.zero_add]
  by_cases h : (k : Nat) = j
  · have : k = ⟨j, hj⟩ := Fin.ext h
    subst this; simp
  · have : k ≠ ⟨j, hj⟩ := fun e => h (congrArg Fin.val e)
    simp [h, this]

theorem combine_pcUpd (J : Mat α) (m n : Nat) (hJ : MatWF J m n) (cw : Vec α) (hcw : cw.length = m)
    (j : Nat) (hj : j < m) (δ : α) :
    combine n J (pcUpd cw j δ) = vsub (combine n J cw) (smul δ (J.getD j [])) := by
  have hl : (combine n J cw).length = (smul δ (J.getD j [])).length := by
    rw [combine_length J m n hJ, smul_length, row_length J m n hJ j hj]
  apply toFn_injective n _ _ (combine_length J m n hJ _)
    (by rw [vsub_length _ _ hl, combine_length J m n hJ])
  rw [toFn_combine J m n hJ _ (by rw [pcUpd_length, hcw]), toFn_pcUpd m cw hcw j hj, sub_vecMul,
    smul_vecMul, single_one_vecMul, toFn_vsub n _ _ hl, toFn_smul, toFn_combine J m n hJ cw hcw]
  rfl

theorem pcStep_spec (J : Mat α) (m n : Nat) (hJ : MatWF J m n) (i : Nat) (st : Vec α × α)
    (hst : st.1.length = m) (j : Nat) (hj : j < m) :
    (pcStep (gram J) i st j).1.length = m ∧
      combine n J (pcStep (gram J) i st j).1 = pcRowStep J i (combine n J st.1) j := by
  unfold pcStep pcRowStep
  by_cases hji : j = i
  · simp [hji, hst]
  · simp only [hji, if_false]
    rw [dot_gram_row J m n hJ j hj st.1 hst, gram_getD J j j (by rw [hJ.1]; exact hj)
      (by rw [hJ.1]; exact hj)]
    split_ifs with hip
    · exact ⟨by rw [pcUpd_length, hst], combine_pcUpd J m n hJ st.1 hst j hj _⟩
    · exact ⟨hst, rfl⟩

theorem pcFold_spec (J : Mat α) (m n : Nat) (hJ : MatWF J m n) (i : Nat) :
    ∀ (perm : List Nat) (hperm : ∀ j ∈ perm, j < m) (st : Vec α × α), st.1.length = m →
      (perm.foldl (pcStep (gram J) i) st).1.length = m ∧
        combine n J (perm.foldl (pcStep (gram J) i) st).1 =
          perm.foldl (pcRowStep J i) (combine n J st.1)
  | [], _, st, hst => ⟨hst, rfl⟩
  | j :: perm, hperm, st, hst => by
    obtain ⟨h1, h2⟩ := pcStep_spec J m n hJ i st hst j (hperm j (by simp))
    rw [List.foldl_cons, List.foldl_cons, ← h2]
    exact pcFold_spec J m n hJ i perm (fun k hk => hperm k (by simp [hk])) _ h1

theorem perms_getD_lt (m : Nat) (perms : List (List Nat)) (hp : ∀ p ∈ perms, ∀ j ∈ p, j < m)
    (i : Nat) : ∀ j ∈ perms.getD i [], j < m := by
  by_cases hi : i < perms.length
  · exact hp _ (getD_mem perms [] i hi)
  · rw [List.getD_eq_getElem?_getD, List.getElem?_eq_none (not_lt.mp hi)]
    simp

theorem pcgrad_refines' (J : Mat α) (m n : Nat) (hJ : MatWF J m n) (perms : List (List Nat))
    (hp : ∀ p ∈ perms, ∀ j ∈ p, j < m) :
    combine n J (pcgradWeights (gram J) perms).1 =
      vsum n ((List.range m).map fun i => pcRow J i (perms.getD i [])) := by
  have hm : (gram J).length = m := by rw [gram_length, hJ.1]
  rw [pcgradWeights_fst, hm, combine_vsum J m n hJ]
  · rw [List.map_map]
    congr 1
    apply List.map_congr_left
    intro i hi
    have hi' : i < m := List.mem_range.mp hi
    have := (pcFold_spec J m n hJ i (perms.getD i []) (perms_getD_lt m perms hp i)
      (oneHot m i, 1) (oneHot_length m i)).2
    simp only [Function.comp_apply]
    rw [this, pcRow_eq, combine_oneHot J m n hJ i hi']
  · intro w hw
    obtain ⟨i, _, rfl⟩ := List.mem_map.mp hw
    exact (pcFold_spec J m n hJ i (perms.getD i []) (perms_getD_lt m perms hp i)
      (oneHot m i, 1) (oneHot_length m i)).1

/-- without conflicts the inner loop never fires -/
theorem pcFold_noconflict (J : Mat α) (m n : Nat) (hJ : MatWF J m n) (i : Nat) (hi : i < m)
    (hnc : ∀ a b, a < m → b < m → 0 ≤ dot (J.getD a []) (J.getD b [])) :
    ∀ (perm : List Nat) (hperm : ∀ j ∈ perm, j < m) (mg : α),
      (perm.foldl (pcStep (gram J) i) (oneHot m i, mg)).1 = oneHot m i
  | [], _, _ => rfl
  | j :: perm, hperm, mg => by
    have hj : j < m := hperm j (by simp)
    rw [List.foldl_cons]
    have : ∃ mg', pcStep (gram J) i (oneHot m i, mg) j = (oneHot m i, mg') := by
      unfold pcStep
      by_cases hji : j = i
      · exact ⟨mg, by simp [hji]⟩
      · simp only [hji, if_false]
        rw [dot_gram_row J m n hJ j hj _ (oneHot_length m i), combine_oneHot J m n hJ i hi,
          if_neg (not_lt.mpr (hnc j i hj hi))]
        exact ⟨_, rfl⟩
    obtain ⟨mg', h⟩ := this
    rw [h]
    exact pcFold_noconflict J m n hJ i hi hnc perm (fun k hk => hperm k (by simp [hk])) mg'

theorem vsum_oneHot (m : Nat) :
    vsum m ((List.range m).map fun i => (oneHot m i : Vec α)) = List.replicate m 1 := by
  have hall : ∀ x ∈ (List.range m).map fun i => (oneHot m i : Vec α), x.length = m := by
    intro x hx
    obtain ⟨i, _, rfl⟩ := List.mem_map.mp hx
    exact oneHot_length m i
  apply toFn_injective m _ _ (vsum_length m _ hall) (by simp)
  rw [toFn_vsum m m _ (by simp) hall]
  funext k
  rw [Finset.sum_apply]
  have : ∀ i : Fin m, toFn m (((List.range m).map fun i => (oneHot m i : Vec α)).getD i []) k =
      if i = k then 1 else 0 := by
    intro i
    have e : ((List.range m).map fun i => (oneHot m i : Vec α)).getD i [] = oneHot m i := by
      simp [List.getD_eq_getElem?_getD, List.getElem?_range i.2]
    rw [e, toFn_oneHot]
    simp only [Fin.ext_iff, eq_comm]
  simp only [this]
  simp [toFn, List.getD_eq_getElem?_getD, List.getElem?_replicate]

theorem pcgrad_noconflict (J : Mat α) (m n : Nat) (hJ : MatWF J m n) (perms : List (List Nat))
    (hp : ∀ p ∈ perms, ∀ j ∈ p, j < m)
    (hnc : ∀ a b, a < m → b < m → 0 ≤ dot (J.getD a []) (J.getD b [])) :
    (pcgradWeights (gram J) perms).1 = List.replicate m 1 := by
  have hm : (gram J).length = m := by rw [gram_length, hJ.1]
  rw [pcgradWeights_fst, hm, ← vsum_oneHot m]
  congr 1
  apply List.map_congr_left
  intro i hi
  exact pcFold_noconflict J m n hJ i (List.mem_range.mp hi) hnc _ (perms_getD_lt m perms hp i) 1

end Tjd.Agg
