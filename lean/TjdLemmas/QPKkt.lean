/- KKT ⇒ minimiser, uniqueness, soundness of the certified search (helper for TjdProps/C03.lean) -/
import Mathlib.Algebra.Order.Field.Basic
import TjdModel.Agg.Spec
import TjdLemmas.QPBridge
namespace Tjd.Agg
open Tjd Matrix
set_option linter.unusedSectionVars false

/-! ### abstract statements on `Fin m → α` -/
section abstract
variable {α : Type} [Field α] [LinearOrder α] [IsStrictOrderedRing α] {m : Nat}

theorem qfF_symm (A : Matrix (Fin m) (Fin m) α) (hA : Aᵀ = A) (v w : Fin m → α) :
    w ⬝ᵥ A *ᵥ v = v ⬝ᵥ A *ᵥ w := by
  rw [dotProduct_mulVec, dotProduct_comm, ← mulVec_transpose, hA]

theorem qfF_expand (A : Matrix (Fin m) (Fin m) α) (hA : Aᵀ = A) (v w : Fin m → α) :
    v ⬝ᵥ A *ᵥ v = w ⬝ᵥ A *ᵥ w + 2 * ((v - w) ⬝ᵥ A *ᵥ w) + (v - w) ⬝ᵥ A *ᵥ (v - w) := by
  have hs := qfF_symm A hA v w
  simp only [mulVec_sub, sub_dotProduct, dotProduct_sub]
  rw [hs]; ring

theorem dotProduct_nonneg' (x y : Fin m → α) (hx : 0 ≤ x) (hy : 0 ≤ y) : 0 ≤ x ⬝ᵥ y :=
  Finset.sum_nonneg fun i _ => mul_nonneg (hx i) (hy i)

theorem kkt_min_fn (A : Matrix (Fin m) (Fin m) α) (hA : Aᵀ = A)
    (hpsd : ∀ v : Fin m → α, 0 ≤ v ⬝ᵥ A *ᵥ v) (u w v : Fin m → α)
    (h2 : 0 ≤ A *ᵥ w) (h3 : (w - u) ⬝ᵥ A *ᵥ w = 0) (hv : u ≤ v) :
    w ⬝ᵥ A *ᵥ w ≤ v ⬝ᵥ A *ᵥ v := by
  rw [qfF_expand A hA v w]
  have e : (v - w) ⬝ᵥ A *ᵥ w = (v - u) ⬝ᵥ A *ᵥ w - (w - u) ⬝ᵥ A *ᵥ w := by
    simp only [sub_dotProduct]; ring
  have h4 : 0 ≤ (v - u) ⬝ᵥ A *ᵥ w := dotProduct_nonneg' _ _ (fun i => sub_nonneg.mpr (hv i)) h2
  have h5 := hpsd (v - w)
  rw [e, h3]
  linarith

theorem qp_unique_fn (A : Matrix (Fin m) (Fin m) α) (hA : Aᵀ = A)
    (hpd : ∀ f : Fin m → α, f ≠ 0 → 0 < f ⬝ᵥ A *ᵥ f) (u w w' : Fin m → α)
    (h1 : u ≤ w) (h1' : u ≤ w')
    (hm : ∀ v, u ≤ v → w ⬝ᵥ A *ᵥ w ≤ v ⬝ᵥ A *ᵥ v)
    (hm' : ∀ v, u ≤ v → w' ⬝ᵥ A *ᵥ w' ≤ v ⬝ᵥ A *ᵥ v) : w = w' := by
  by_contra hne
  have hd : w - w' ≠ 0 := sub_ne_zero.mpr hne
  have hpos := hpd _ hd
  have hs := qfF_symm A hA w w'
  have hz : u ≤ (2⁻¹ : α) • (w + w') := by
    intro i
    have a := h1 i
    have b := h1' i
    simp only [Pi.smul_apply, Pi.add_apply, smul_eq_mul]
    linarith
  have e1 := hm _ hz
  have e2 := hm' _ hz
  simp only [mulVec_smul, mulVec_add, mulVec_sub, smul_dotProduct, dotProduct_smul, add_dotProduct,
    dotProduct_add, sub_dotProduct, dotProduct_sub, smul_eq_mul] at e1 e2 hpos
  rw [hs] at e1 e2 hpos
  linarith

end abstract

/-! ### list level: `vle`, `IsQPMin`, `kktCheck` -/
section listlevel
variable {α : Type} [Field α] [LinearOrder α] [IsStrictOrderedRing α]

theorem vle_iff (m : Nat) (u v : Vec α) (hu : u.length = m) :
    vle u v ↔ v.length = m ∧ toFn m u ≤ toFn m v := by
  subst hu
  constructor
  · rintro ⟨h1, h2⟩
    exact ⟨h1.symm, fun i => h2 i i.2⟩
  · rintro ⟨h1, h2⟩
    exact ⟨h1.symm, fun i hi => h2 ⟨i, hi⟩⟩

theorem vle_ofFn (m : Nat) (u : Vec α) (hu : u.length = m) (f : Fin m → α) (h : toFn m u ≤ f) :
    vle u (List.ofFn f) := by
  rw [vle_iff m u _ hu, toFn_ofFn]
  exact ⟨List.length_ofFn, h⟩

theorem isQPMin_iff (m : Nat) (G : Mat α) (u w : Vec α) (hu : u.length = m) :
    IsQPMin G u w ↔ w.length = m ∧ toFn m u ≤ toFn m w ∧
      ∀ f : Fin m → α, toFn m u ≤ f →
        toFn m w ⬝ᵥ toMat m m G *ᵥ toFn m w ≤ f ⬝ᵥ toMat m m G *ᵥ f := by
  unfold IsQPMin
  rw [vle_iff m u w hu]
  constructor
  · rintro ⟨⟨hw, hle⟩, hmin⟩
    refine ⟨hw, hle, fun f hf => ?_⟩
    have := hmin _ (vle_ofFn m u hu f hf)
    rwa [qf_eq m G w hw.le, qf_eq m G (List.ofFn f) (by simp), toFn_ofFn] at this
  · rintro ⟨hw, hle, hmin⟩
    refine ⟨⟨hw, hle⟩, fun v hv => ?_⟩
    rw [vle_iff m u v hu] at hv
    rw [qf_eq m G w hw.le, qf_eq m G v hv.1.le]
    exact hmin _ hv.2

theorem toMat_symm (m : Nat) (G : Mat α) (hG : SymmSquare G m) : (toMat m m G)ᵀ = toMat m m G := by
  ext i j
  exact hG.2.2 j i j.2 i.2

theorem psd_fn (m : Nat) (G : Mat α) (hpsd : ∀ v : Vec α, v.length = m → 0 ≤ qf G v)
    (f : Fin m → α) : 0 ≤ f ⬝ᵥ toMat m m G *ᵥ f := by
  have := hpsd (List.ofFn f) (by simp)
  rwa [qf_eq m G _ (by simp), toFn_ofFn] at this

theorem pd_fn (m : Nat) (G : Mat α) (hpd : PosDef G m)
    (f : Fin m → α) (hf : f ≠ 0) : 0 < f ⬝ᵥ toMat m m G *ᵥ f := by
  obtain ⟨i, hi⟩ := Function.ne_iff.mp hf
  have := hpd (List.ofFn f) (by simp) ⟨f i, by simp [List.mem_ofFn], hi⟩
  rwa [qf_eq m G _ (by simp), toFn_ofFn] at this

theorem zipWith_le_all : ∀ (u w : Vec α), w.length = u.length →
    (List.zipWith (fun ui wi => decide (ui ≤ wi)) u w).all id = true →
    ∀ i, i < u.length → u.getD i 0 ≤ w.getD i 0
  | [], _, _, _, i, hi => by simp at hi
  | a :: u, [], h, _, _, _ => by simp at h
  | a :: u, b :: w, h, hall, i, hi => by
    simp only [List.zipWith_cons_cons, List.all_cons, Bool.and_eq_true, id,
      decide_eq_true_eq] at hall
    cases i with
    | zero => simpa using hall.1
    | succ i => simpa using zipWith_le_all u w (by simpa using h) hall.2 i (by simpa using hi)

/-- what the Boolean KKT check says -/
theorem kktCheck_spec (G : Mat α) (u w : Vec α) (hk : kktCheck G u w = true) :
    w.length = u.length ∧ G.length = u.length ∧ vle u w ∧
      (∀ i, i < u.length → 0 ≤ dot (G.getD i []) w) ∧ dot (vsub w u) (matVec G w) = 0 := by
  simp only [kktCheck, Bool.and_eq_true, decide_eq_true_eq, List.all_eq_true, beq_iff_eq] at hk
  obtain ⟨⟨⟨⟨h1, h2⟩, h3⟩, h4⟩, h5⟩ := hk
  rw [matVec_length] at h2
  refine ⟨h1, h2, ⟨h1.symm, ?_⟩, ?_, h5⟩
  · apply zipWith_le_all u w h1
    rw [List.all_eq_true]
    exact h3
  · intro i hi
    rw [← matVec_getD]
    apply h4
    rw [List.getD_eq_getElem?_getD, List.getElem?_eq_getElem (by rw [matVec_length]; omega)]
    simp

/-- KKT (as propositions) ⇒ minimiser -/
theorem isQPMin_of_kkt (G : Mat α) (m : Nat) (hG : SymmSquare G m)
    (hpsd : ∀ v : Vec α, v.length = m → 0 ≤ qf G v) (u w : Vec α) (hu : u.length = m)
    (hw : w.length = m) (hle : vle u w) (hdual : ∀ i, i < m → 0 ≤ dot (G.getD i []) w)
    (hcs : dot (vsub w u) (matVec G w) = 0) : IsQPMin G u w := by
  rw [isQPMin_iff m G u w hu]
  refine ⟨hw, ((vle_iff m u w hu).mp hle).2, fun f hf => ?_⟩
  apply kkt_min_fn (toMat m m G) (toMat_symm m G hG) (psd_fn m G hpsd) (toFn m u) (toFn m w) f
  · rw [← toFn_matVec m m G w hw.le]
    intro i
    rw [toFn_apply, matVec_getD]
    exact hdual i i.2
  · rw [← toFn_vsub m w u (by omega), ← toFn_matVec m m G w hw.le,
      ← dot_eq_left m _ _ (by rw [vsub_length _ _ (by omega)]; omega)]
    exact hcs
  · exact hf

theorem isQPMin_of_kktCheck (G : Mat α) (m : Nat) (hG : SymmSquare G m)
    (hpsd : ∀ v : Vec α, v.length = m → 0 ≤ qf G v) (u w : Vec α) (hu : u.length = m)
    (hk : kktCheck G u w = true) : IsQPMin G u w := by
  obtain ⟨h1, _, h3, h4, h5⟩ := kktCheck_spec G u w hk
  exact isQPMin_of_kkt G m hG hpsd u w hu (by omega) h3 (fun i hi => h4 i (by omega)) h5

theorem isQPMin_unique (G : Mat α) (m : Nat) (hG : SymmSquare G m) (hpd : PosDef G m)
    (u w w' : Vec α) (hu : u.length = m) (h : IsQPMin G u w) (h' : IsQPMin G u w') : w = w' := by
  rw [isQPMin_iff m G u _ hu] at h h'
  obtain ⟨hw, hle, hmin⟩ := h
  obtain ⟨hw', hle', hmin'⟩ := h'
  apply toFn_injective m w w' hw hw'
  exact qp_unique_fn (toMat m m G) (toMat_symm m G hG) (pd_fn m G hpd) (toFn m u) _ _ hle hle'
    hmin hmin'

theorem psd_of_pd (G : Mat α) (m : Nat) (hpd : PosDef G m) (v : Vec α) (hv : v.length = m) :
    0 ≤ qf G v := by
  by_cases h : ∃ x ∈ v, x ≠ 0
  · exact (hpd v hv h).le
  · have hz : toFn m v = 0 := by
      funext i
      by_contra hne
      apply h
      refine ⟨v.getD i 0, ?_, hne⟩
      rw [List.getD_eq_getElem?_getD, List.getElem?_eq_getElem (by omega)]
      simp
    rw [qf_eq m G v hv.le, hz]
    simp

/-- the certified search only ever returns KKT points -/
theorem qpProject_kkt (G : Mat α) (u w : Vec α) (mg : α) (h : qpProject G u = some (w, mg)) :
    kktCheck G u w = true := by
  unfold qpProject at h
  obtain ⟨act, _, hact⟩ := List.exists_of_findSome?_eq_some h
  cases hc : qpCandidate G u act with
  | none => simp [hc] at hact
  | some w' =>
    simp only [hc] at hact
    by_cases hk : kktCheck G u w' = true
    · simp only [hk, if_true, Option.some.injEq, Prod.mk.injEq] at hact
      rw [← hact.1]; exact hk
    · simp [hk] at hact

end listlevel

end Tjd.Agg
