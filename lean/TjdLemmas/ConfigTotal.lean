/- ConFIG at any rank: the model returns a vector for every matrix (helper for TjdProps/C17b.lean) -/
import Mathlib.Algebra.Order.Field.Basic
import TjdModel.Agg.Spec2
import TjdLemmas.PinvComplete
namespace Tjd.Agg
open Tjd

variable {α : Type} [Field α] [LinearOrder α] [IsStrictOrderedRing α]

omit [IsStrictOrderedRing α] in
/-- the unit-row matrix `configVecP` builds is well formed -/
theorem unitRows_matWF_ct (J : Mat α) (m n : Nat) (hJ : MatWF J m n) (d : Vec α) (hd : d.length = m) :
    MatWF (List.zipWith (fun (row : Vec α) di => if di = 0 then row.map (fun _ => (0 : α)) else row.map (· / di)) J d) m n := by
  refine ⟨by rw [List.length_zipWith, hJ.1, hd, Nat.min_self], ?_⟩
  intro row hrow
  obtain ⟨i, hi, rfl⟩ := List.mem_iff_getElem.mp hrow
  rw [List.getElem_zipWith]
  have hr : (J[i]'(by rw [List.length_zipWith] at hi; omega)).length = n :=
    hJ.2 _ (List.getElem_mem _)
  split_ifs <;> simp [hr]

theorem configVecP_complete (J : Mat α) (m n : Nat) (hJ : MatWF J m n) (d w : Vec α) (hd : d.length = m)
    (hw : w.length = m) : ∃ x, configVecP J d w n = some x := by
  have hU := unitRows_matWF_ct J m n hJ d hd
  obtain ⟨y, hy⟩ := pinvApply_complete _ m (gram_symmSquare _ m n hU) w hw
  unfold configVecP
  simp only
  rw [hy]
  simp only
  split_ifs <;> exact ⟨_, rfl⟩

end Tjd.Agg
