/- helper lemmas for TjdProps/C03b.lean -/
import Mathlib.Algebra.Order.Field.Basic
import TjdModel.Agg.Spec2
import TjdLemmas.QPLemmas
import TjdLemmas.FWLemmas
namespace Tjd.Agg.Cone
open Tjd Tjd.Agg Matrix
set_option linter.unusedSectionVars false
set_option linter.unusedSimpArgs false
set_option linter.unusedVariables false

variable {α : Type} [Field α] [LinearOrder α] [IsStrictOrderedRing α]

/-! ### abstract statements on `Fin m → α` -/

/-- variational inequality at a KKT point: `⟨Y - X, X - P⟩ ≥ 0` for every `Y` in the dual cone -/
theorem kkt_variational {m n : Nat} (B : Matrix (Fin m) (Fin n) α) (fu fw : Fin m → α)
    (Y : Fin n → α) (h1 : fu ≤ fw) (h3 : (fw - fu) ⬝ᵥ B *ᵥ (fw ᵥ* B) = 0) (hy : 0 ≤ B *ᵥ Y) :
    0 ≤ (Y - fw ᵥ* B) ⬝ᵥ (fw ᵥ* B - fu ᵥ* B) := by
  have e : fw ᵥ* B - fu ᵥ* B = (fw - fu) ᵥ* B := (sub_vecMul _ _ _).symm
  rw [e, sub_dotProduct, dotProduct_comm Y, dotProduct_comm (fw ᵥ* B), ← dotProduct_mulVec,
    ← dotProduct_mulVec, h3, sub_zero]
  exact dotProduct_nonneg' _ _ (fun i => sub_nonneg.mpr (h1 i)) hy

theorem sqdist_expand {n : Nat} (X P Y : Fin n → α) :
    (Y - P) ⬝ᵥ (Y - P) =
      (Y - X) ⬝ᵥ (Y - X) + 2 * ((Y - X) ⬝ᵥ (X - P)) + (X - P) ⬝ᵥ (X - P) := by
  have e : Y - P = (Y - X) + (X - P) := (sub_add_sub_cancel Y X P).symm
  rw [e, add_dotProduct, dotProduct_add, dotProduct_add, dotProduct_comm (X - P) (Y - X)]
  ring

theorem kkt_projection_fn {m n : Nat} (B : Matrix (Fin m) (Fin n) α) (fu fw : Fin m → α)
    (Y : Fin n → α) (h1 : fu ≤ fw) (h3 : (fw - fu) ⬝ᵥ B *ᵥ (fw ᵥ* B) = 0) (hy : 0 ≤ B *ᵥ Y) :
    (fw ᵥ* B - fu ᵥ* B) ⬝ᵥ (fw ᵥ* B - fu ᵥ* B) ≤ (Y - fu ᵥ* B) ⬝ᵥ (Y - fu ᵥ* B) := by
  rw [sqdist_expand (fw ᵥ* B) (fu ᵥ* B) Y]
  have h := kkt_variational B fu fw Y h1 h3 hy
  have h' := dotProduct_self_nonneg' (Y - fw ᵥ* B)
  linarith

theorem dotProduct_self_eq_zero' {n : Nat} (f : Fin n → α) (h : f ⬝ᵥ f = 0) : f = 0 := by
  by_contra hne
  exact (dotProduct_self_pos' f hne).ne' h

theorem kkt_unique_fn {m n : Nat} (B : Matrix (Fin m) (Fin n) α) (fu fw fw' : Fin m → α)
    (h1 : fu ≤ fw) (h2 : 0 ≤ B *ᵥ (fw ᵥ* B)) (h3 : (fw - fu) ⬝ᵥ B *ᵥ (fw ᵥ* B) = 0)
    (h1' : fu ≤ fw') (h2' : 0 ≤ B *ᵥ (fw' ᵥ* B)) (h3' : (fw' - fu) ⬝ᵥ B *ᵥ (fw' ᵥ* B) = 0) :
    fw ᵥ* B = fw' ᵥ* B := by
  have a := kkt_variational B fu fw (fw' ᵥ* B) h1 h3 h2'
  have b := kkt_variational B fu fw' (fw ᵥ* B) h1' h3' h2
  generalize fw ᵥ* B = X at *
  generalize fw' ᵥ* B = X' at *
  generalize fu ᵥ* B = P at *
  have hz : (X - X') ⬝ᵥ (X - X') = 0 := by
    have hn := dotProduct_self_nonneg' (X - X')
    have e : (X - X') ⬝ᵥ (X - X') = -((X' - X) ⬝ᵥ (X - P) + (X - X') ⬝ᵥ (X' - P)) := by
      simp only [sub_dotProduct, dotProduct_sub]
      rw [dotProduct_comm X' X]
      ring
    linarith
  exact sub_eq_zero.mp (dotProduct_self_eq_zero' _ hz)

/-- generalised Cauchy–Schwarz for a symmetric PSD matrix -/
theorem psd_cauchy_schwarz {m : Nat} (A : Matrix (Fin m) (Fin m) α) (hA : Aᵀ = A)
    (hpsd : ∀ v : Fin m → α, 0 ≤ v ⬝ᵥ A *ᵥ v) (e w : Fin m → α) (hb : 0 < w ⬝ᵥ A *ᵥ w) :
    (e ⬝ᵥ A *ᵥ w) * (e ⬝ᵥ A *ᵥ w) ≤ (e ⬝ᵥ A *ᵥ e) * (w ⬝ᵥ A *ᵥ w) := by
  have h := hpsd ((w ⬝ᵥ A *ᵥ w) • e - (e ⬝ᵥ A *ᵥ w) • w)
  simp only [mulVec_sub, mulVec_smul, sub_dotProduct, dotProduct_sub, smul_dotProduct,
    dotProduct_smul, smul_eq_mul] at h
  rw [qfF_symm A hA e w] at h
  generalize e ⬝ᵥ A *ᵥ w = p at *
  generalize e ⬝ᵥ A *ᵥ e = a at *
  generalize w ⬝ᵥ A *ᵥ w = b at *
  have h' : 0 ≤ b * (a * b - p * p) := by nlinarith
  have := nonneg_of_mul_nonneg_right h' hb
  linarith

theorem cagrad_fn {m : Nat} (A : Matrix (Fin m) (Fin m) α) (hA : Aᵀ = A)
    (hpsd : ∀ v : Fin m → α, 0 ≤ v ⬝ᵥ A *ᵥ v) (e w : Fin m → α) (c n0 nw : α) (hc : 1 ≤ c)
    (hn0 : 0 ≤ n0) (hn0sq : n0 * n0 = e ⬝ᵥ A *ᵥ e) (hnw : 0 < nw) (hnwsq : nw * nw = w ⬝ᵥ A *ᵥ w) :
    0 ≤ (A *ᵥ (e + (c * n0 / nw) • w)) ⬝ᵥ w := by
  have hcs := psd_cauchy_schwarz A hA hpsd e w (by rw [← hnwsq]; exact mul_pos hnw hnw)
  rw [dotProduct_comm, mulVec_add, mulVec_smul, dotProduct_add, dotProduct_smul, smul_eq_mul,
    qfF_symm A hA e w, ← hnwsq]
  rw [← hn0sq, ← hnwsq] at hcs
  generalize e ⬝ᵥ A *ᵥ w = p at *
  have hk : c * n0 / nw * (nw * nw) = c * n0 * nw := by field_simp
  rw [hk]
  have hprod : 0 ≤ n0 * nw := mul_nonneg hn0 hnw.le
  have hp : -(n0 * nw) ≤ p := by
    by_contra hlt
    rw [not_le] at hlt
    have : n0 * nw < -p := by linarith
    have := mul_self_lt_mul_self hprod this
    nlinarith
  have : 0 ≤ (c - 1) * (n0 * nw) := mul_nonneg (sub_nonneg.mpr hc) hprod
  nlinarith

/-! ### list level -/

/-- the Boolean KKT check for `gram J`, read on `Fin m → α` with `B = toMat m n J` -/
theorem kkt_fn (J : Mat α) (m n : Nat) (hJ : MatWF J m n) (u w : Vec α) (hu : u.length = m)
    (hk : kktCheck (gram J) u w = true) :
    w.length = m ∧ toFn m u ≤ toFn m w ∧ 0 ≤ toMat m n J *ᵥ (toFn m w ᵥ* toMat m n J) ∧
      (toFn m w - toFn m u) ⬝ᵥ toMat m n J *ᵥ (toFn m w ᵥ* toMat m n J) = 0 := by
  obtain ⟨h1, _, h3, h4, h5⟩ := kktCheck_spec (gram J) u w hk
  have hw : w.length = m := by omega
  have hGw : toMat m m (gram J) *ᵥ toFn m w = toMat m n J *ᵥ (toFn m w ᵥ* toMat m n J) := by
    rw [toMat_gram J m n hJ, ← mulVec_mulVec, mulVec_transpose]
  refine ⟨hw, ((vle_iff m u w hu).mp h3).2, ?_, ?_⟩
  · rw [← hGw, ← toFn_matVec m m _ w hw.le]
    intro i
    rw [toFn_apply, matVec_getD]
    exact h4 i (by rw [hu]; exact i.2)
  · rw [← hGw, ← toFn_matVec m m _ w hw.le, ← toFn_vsub m w u (by omega),
      ← dot_eq_left m _ _ (by rw [vsub_length _ _ (by omega)]; omega)]
    exact h5

theorem dualcone_fn (J : Mat α) (m n : Nat) (hJ : MatWF J m n) (y : Vec α) (hy : y.length = n)
    (h : ∀ i, i < J.length → 0 ≤ dot (J.getD i []) y) : 0 ≤ toMat m n J *ᵥ toFn n y := by
  intro i
  have := h i (by rw [hJ.1]; exact i.2)
  rw [dot_eq_right n _ _ hy.le] at this
  exact this

theorem sqdist_fn (n : Nat) (x y : Vec α) (hx : x.length = n) (hy : y.length = n) :
    dot (vsub x y) (vsub x y) = (toFn n x - toFn n y) ⬝ᵥ (toFn n x - toFn n y) := by
  rw [dot_eq_left n _ _ (by rw [vsub_length _ _ (by omega)]; omega), toFn_vsub n x y (by omega)]

theorem kkt_dualcone (J : Mat α) (m n : Nat) (hJ : MatWF J m n) (u w : Vec α) (hu : u.length = m)
    (hk : kktCheck (gram J) u w = true) :
    ∀ i, i < J.length → 0 ≤ dot (J.getD i []) (combine n J w) := by
  obtain ⟨h1, _, _, h4, _⟩ := kktCheck_spec (gram J) u w hk
  intro i hi
  rw [← dot_gram_row J m n hJ i (by rw [← hJ.1]; exact hi) w (by omega)]
  exact h4 i (by rw [hu, ← hJ.1]; exact hi)

theorem kkt_projection (J : Mat α) (m n : Nat) (hJ : MatWF J m n) (u w : Vec α) (hu : u.length = m)
    (hk : kktCheck (gram J) u w = true) (y : Vec α) (hy : y.length = n)
    (hcone : ∀ i, i < J.length → 0 ≤ dot (J.getD i []) y) :
    dot (vsub (combine n J w) (combine n J u)) (vsub (combine n J w) (combine n J u)) ≤
      dot (vsub y (combine n J u)) (vsub y (combine n J u)) := by
  obtain ⟨hw, k1, _, k3⟩ := kkt_fn J m n hJ u w hu hk
  rw [sqdist_fn n _ _ (combine_length J m n hJ w) (combine_length J m n hJ u),
    sqdist_fn n _ _ hy (combine_length J m n hJ u), toFn_combine J m n hJ w hw,
    toFn_combine J m n hJ u hu]
  exact kkt_projection_fn _ _ _ _ k1 k3 (dualcone_fn J m n hJ y hy hcone)

theorem kkt_unique (J : Mat α) (m n : Nat) (hJ : MatWF J m n) (u w w' : Vec α) (hu : u.length = m)
    (hk : kktCheck (gram J) u w = true) (hk' : kktCheck (gram J) u w' = true) :
    combine n J w = combine n J w' := by
  obtain ⟨hw, k1, k2, k3⟩ := kkt_fn J m n hJ u w hu hk
  obtain ⟨hw', k1', k2', k3'⟩ := kkt_fn J m n hJ u w' hu hk'
  apply toFn_injective n _ _ (combine_length J m n hJ w) (combine_length J m n hJ w')
  rw [toFn_combine J m n hJ w hw, toFn_combine J m n hJ w' hw']
  exact kkt_unique_fn _ _ _ _ k1 k2 k3 k1' k2' k3'

/-! ### CAGrad -/

theorem cagradWeights_length (m : Nat) (c n0 nw normEps : α) (w : Vec α) :
    (cagradWeights m c n0 nw normEps w).length = m := by
  unfold cagradWeights
  split_ifs <;> simp [zeros]

theorem toFn_cagradWeights (m : Nat) (c n0 nw normEps : α) (w : Vec α) (hge : normEps ≤ nw) :
    toFn m (cagradWeights m c n0 nw normEps w) =
      toFn m (List.replicate m (1 / (m : α))) + (c * n0 / nw) • toFn m w := by
  unfold cagradWeights
  rw [if_pos hge]
  funext i
  simp [toFn, List.getD_eq_getElem?_getD, List.getElem?_range i.2, List.getElem?_replicate]

theorem cagrad_nonconflict (G : Mat α) (m : Nat) (hm : 0 < m) (hG : SymmSquare G m)
    (hpsd : PosSemidef G m) (c n0 nw normEps : α) (hc : 1 ≤ c) (w : Vec α) (hw : w.length = m)
    (hn0 : 0 ≤ n0) (hn0sq : n0 * n0 = qf G (List.replicate m (1 / (m : α))))
    (hnw : 0 < nw) (hnwsq : nw * nw = qf G w) (hge : normEps ≤ nw) :
    0 ≤ dot (matVec G (cagradWeights m c n0 nw normEps w)) w := by
  rw [qf_eq m G _ (by simp)] at hn0sq
  rw [qf_eq m G w hw.le] at hnwsq
  rw [dot_eq_right m _ w hw.le,
    toFn_matVec m m G _ (cagradWeights_length m c n0 nw normEps w).le,
    toFn_cagradWeights m c n0 nw normEps w hge]
  exact cagrad_fn _ (toMat_symm m G hG) (psd_fn m G hpsd) _ _ c n0 nw hc hn0 hn0sq hnw hnwsq

end Tjd.Agg.Cone
