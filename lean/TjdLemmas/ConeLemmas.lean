/- helper lemmas for TjdProps/C03b.lean -/
import Mathlib.Algebra.Order.Field.Basic
import TjdModel.Agg.Spec2
import TjdLemmas.QPLemmas
import TjdLemmas.FWLemmas
namespace Tjd.Agg

end Tjd.Agg
