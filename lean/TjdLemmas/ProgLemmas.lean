/- helper lemmas for TjdProps/C15b.lean -/
import Mathlib.Algebra.Ring.Defs
import TjdModel.Autojac.ProgSpec
import TjdLemmas.AutojacLemmas
namespace Tjd.Autojac.ProgL
open Tjd Tjd.Autojac

/-! ### folds that append one element per step -/
section appfold
variable {β γ : Type}

/-- `foldl` appending `f acc x` to the accumulator at every step -/
def appFold (f : List β → γ → β) (xs : List γ) (init : List β) : List β :=
  xs.foldl (fun acc x => acc ++ [f acc x]) init

theorem appFold_nil (f : List β → γ → β) (init : List β) : appFold f [] init = init := rfl

theorem appFold_cons (f : List β → γ → β) (x : γ) (xs : List γ) (init : List β) :
    appFold f (x :: xs) init = appFold f xs (init ++ [f init x]) := rfl

theorem appFold_append (f : List β → γ → β) (xs ys : List γ) (init : List β) :
    appFold f (xs ++ ys) init = appFold f ys (appFold f xs init) := by
  unfold appFold
  rw [List.foldl_append]

theorem appFold_length (f : List β → γ → β) (xs : List γ) (init : List β) :
    (appFold f xs init).length = init.length + xs.length := by
  induction xs generalizing init with
  | nil => simp [appFold_nil]
  | cons x xs ih =>
    rw [appFold_cons, ih]
    simp only [List.length_append, List.length_cons, List.length_nil]
    omega

theorem appFold_prefix (f : List β → γ → β) (xs : List γ) (init : List β) :
    init <+: appFold f xs init := by
  induction xs generalizing init with
  | nil => exact List.prefix_refl _
  | cons x xs ih =>
    rw [appFold_cons]
    exact List.IsPrefix.trans (List.prefix_append _ _) (ih _)

theorem appFold_take_prefix (f : List β → γ → β) (xs : List γ) (init : List β) (k : Nat) :
    appFold f (xs.take k) init <+: appFold f xs init := by
  conv => rhs; rw [← List.take_append_drop k xs]
  rw [appFold_append]
  exact appFold_prefix _ _ _

theorem appFold_take_length (f : List β → γ → β) (xs : List γ) (k : Nat) (hk : k ≤ xs.length) :
    (appFold f (xs.take k) []).length = k := by
  rw [appFold_length]
  simp [Nat.min_eq_left hk]

theorem getElem?_of_prefix {l₁ l₂ : List β} (h : l₁ <+: l₂) (k : Nat) (hk : k < l₁.length) :
    l₂[k]? = l₁[k]? := by
  obtain ⟨t, rfl⟩ := h
  exact List.getElem?_append_left hk

theorem getD_of_prefix {l₁ l₂ : List β} (h : l₁ <+: l₂) (k : Nat) (hk : k < l₁.length) (d : β) :
    l₂.getD k d = l₁.getD k d := by
  rw [List.getD_eq_getElem?_getD, List.getD_eq_getElem?_getD, getElem?_of_prefix h k hk]

/-- the `k`-th element of an append-fold is computed from the fold over the first `k` inputs -/
theorem appFold_getElem? (f : List β → γ → β) (xs : List γ) (k : Nat) (hk : k < xs.length) :
    (appFold f xs [])[k]? = some (f (appFold f (xs.take k) []) xs[k]) := by
  have hpre := appFold_take_prefix f xs [] (k + 1)
  have hlen : (appFold f (xs.take k) []).length = k := appFold_take_length f xs k (by omega)
  rw [List.take_succ_eq_append_getElem hk, appFold_append, appFold_cons, appFold_nil] at hpre
  rw [getElem?_of_prefix hpre k (by simp [hlen])]
  rw [List.getElem?_append_right (by omega), hlen]
  simp

theorem appFold_getD (f : List β → γ → β) (xs : List γ) (k : Nat) (hk : k < xs.length) (d : β) :
    (appFold f xs []).getD k d = f (appFold f (xs.take k) []) xs[k] := by
  rw [List.getD_eq_getElem?_getD, appFold_getElem? f xs k hk]
  rfl

theorem appFold_getD_ge (f : List β → γ → β) (xs : List γ) (k : Nat) (hk : xs.length ≤ k) (d : β) :
    (appFold f xs []).getD k d = d := by
  rw [List.getD_eq_getElem?_getD, List.getElem?_eq_none (by rw [appFold_length]; simpa using hk)]
  rfl

end appfold

/-! ### `Prog.infos` and `Prog.deriv` as append-folds -/
section prog
variable {α : Type} [Semiring α]

/-- the default node info used by the model -/
def dflt : NodeInfo α := ⟨0, 0, false, false, []⟩

/-- one step of `Prog.infos` -/
def infoStep (acc : List (NodeInfo α)) (nd : PNode α) : NodeInfo α :=
  match nd with
  | .leaf n d rg vals => ⟨n, d, rg, true, vals⟩
  | .aff n d srcs c =>
    ⟨n, d, srcs.any fun s => (acc.getD s.1 dflt).rg, false,
      srcs.foldl (fun v (s : Nat × Mat α) => vadd v (matVec s.2 (acc.getD s.1 dflt).vals)) c⟩
  | .mul a b =>
    ⟨(acc.getD a dflt).numel, (acc.getD a dflt).ndim, (acc.getD a dflt).rg || (acc.getD b dflt).rg,
      false, List.zipWith (· * ·) (acc.getD a dflt).vals (acc.getD b dflt).vals⟩
  | .detach a => ⟨(acc.getD a dflt).numel, (acc.getD a dflt).ndim, false, true, (acc.getD a dflt).vals⟩

theorem infos_eq (p : Prog α) : p.infos = appFold infoStep p [] := rfl

/-- one step of `Prog.deriv` -/
def derivStep (infos : List (NodeInfo α)) (i : Nat) (acc : List (Option (Mat α)))
    (ndx : PNode α × Nat) : Option (Mat α) :=
  if ndx.2 = i then some (ident (infos.getD i dflt).numel)
  else if ndx.2 < i then none
  else match ndx.1 with
    | .leaf .. => none
    | .detach _ => none
    | .aff _ _ srcs _ =>
      srcs.foldl (fun (d : Option (Mat α)) (s : Nat × Mat α) =>
        optAdd d ((acc.getD s.1 none).map fun D => mmul (infos.getD i dflt).numel s.2 D)) none
    | .mul a b =>
      optAdd ((acc.getD a none).map fun D => rowScale (infos.getD b dflt).vals D)
             ((acc.getD b none).map fun D => rowScale (infos.getD a dflt).vals D)

theorem deriv_eq (p : Prog α) (infos : List (NodeInfo α)) (i : Nat) :
    p.deriv infos i = appFold (derivStep infos i) p.zipIdx [] := rfl

/-- accumulator of `Prog.infos` when node `n` is processed -/
def infosAcc (p : Prog α) (n : Nat) : List (NodeInfo α) := appFold infoStep (p.take n) []

/-- accumulator of `Prog.deriv` when node `n` is processed -/
def derivAcc (p : Prog α) (infos : List (NodeInfo α)) (i n : Nat) : List (Option (Mat α)) :=
  appFold (derivStep infos i) (p.zipIdx.take n) []

theorem infos_length (p : Prog α) : p.infos.length = p.length := by
  rw [infos_eq, appFold_length]; simp

theorem deriv_length (p : Prog α) (infos : List (NodeInfo α)) (i : Nat) :
    (p.deriv infos i).length = p.length := by
  rw [deriv_eq, appFold_length]; simp

theorem infos_getD (p : Prog α) (n : Nat) (hn : n < p.length) :
    p.infos.getD n dflt = infoStep (infosAcc p n) p[n] := by
  rw [infos_eq, appFold_getD infoStep p n hn]; rfl

theorem infosAcc_getD (p : Prog α) (n k : Nat) (hn : n ≤ p.length) (hk : k < n) :
    (infosAcc p n).getD k dflt = p.infos.getD k dflt := by
  rw [infos_eq]
  exact (getD_of_prefix (appFold_take_prefix infoStep p [] n) k
    (by rw [appFold_take_length _ _ _ hn]; exact hk) _).symm

theorem deriv_getD (p : Prog α) (infos : List (NodeInfo α)) (i n : Nat) (hn : n < p.length) :
    (p.deriv infos i).getD n none = derivStep infos i (derivAcc p infos i n) (p[n], n) := by
  rw [deriv_eq, appFold_getD (derivStep infos i) p.zipIdx n (by simpa using hn)]
  simp [derivAcc, List.getElem_zipIdx]

theorem deriv_getD_ge (p : Prog α) (infos : List (NodeInfo α)) (i n : Nat) (hn : p.length ≤ n) :
    (p.deriv infos i).getD n none = none := by
  rw [deriv_eq, appFold_getD_ge _ _ _ (by simpa using hn)]

theorem derivAcc_getD (p : Prog α) (infos : List (NodeInfo α)) (i n k : Nat) (hn : n ≤ p.length)
    (hk : k < n) : (derivAcc p infos i n).getD k none = (p.deriv infos i).getD k none := by
  rw [deriv_eq]
  exact (getD_of_prefix (appFold_take_prefix (derivStep infos i) p.zipIdx [] n) k
    (by rw [appFold_take_length _ _ _ (by simpa using hn)]; exact hk) _).symm

theorem derivAcc_getD_ge (p : Prog α) (infos : List (NodeInfo α)) (i n k : Nat) (hn : n ≤ p.length)
    (hk : n ≤ k) : (derivAcc p infos i n).getD k none = none := by
  unfold derivAcc
  rw [appFold_getD_ge]
  rw [List.length_take, List.length_zipIdx]
  omega

/-! ### the engine of a program -/

theorem engine_numel (p : Prog α) (k : Nat) :
    (p.engine).1.numel k = (p.infos.getD k dflt).numel := rfl

theorem engine_jac_lt (p : Prog α) (o i : Nat) (hi : i < p.length) :
    (p.engine).1.jac o i = (p.deriv p.infos i).getD o none := by
  show (((List.range p.length).map fun i => p.deriv p.infos i).getD i []).getD o none = _
  rw [range_map_getD_lt _ _ _ _ hi]

theorem engine_jac_ge (p : Prog α) (o i : Nat) (hi : p.length ≤ i) :
    (p.engine).1.jac o i = none := by
  show (((List.range p.length).map fun i => p.deriv p.infos i).getD i []).getD o none = _
  have h : ((List.range p.length).map fun i => p.deriv p.infos i).getD i [] = [] := by
    rw [List.getD_eq_getElem?_getD, List.getElem?_eq_none (by simpa using hi)]
    rfl
  rw [h]
  rfl

theorem engine_self (p : Prog α) (i : Nat) (hi : i < p.length) :
    (p.engine).1.jac i i = some (ident ((p.engine).1.numel i)) := by
  rw [engine_jac_lt p i i hi, deriv_getD _ _ _ _ hi, engine_numel]
  simp [derivStep]

theorem engine_leaf (p : Prog α) (o i : Nat) (ho : o < p.length) (hne : o ≠ i)
    (hleaf : ∃ n d rg vals, p.getD o (.detach 0) = .leaf n d rg vals) :
    (p.engine).1.jac o i = none := by
  by_cases hi : i < p.length
  · rw [engine_jac_lt p o i hi, deriv_getD _ _ _ _ ho]
    obtain ⟨n, d, rg, vals, h⟩ := hleaf
    have h' : p[o] = .leaf n d rg vals := by
      rw [← h, List.getD_eq_getElem?_getD, List.getElem?_eq_getElem ho]; rfl
    simp [derivStep, hne, h']
  · exact engine_jac_ge p o i (by omega)

end prog
/-! ### linear algebra for the chain rule -/
section chain
variable {α : Type} [Semiring α]

theorem combine_zeros (n k : Nat) (B : Mat α) (hB : ∀ row ∈ B, row.length = n) :
    combine n B (zeros k : Vec α) = zeros n := by
  apply vsum_all_zeros
  intro x hx
  rw [List.mem_iff_getElem] at hx
  obtain ⟨j, hj, rfl⟩ := hx
  simp only [List.getElem_zipWith, zeros, List.getElem_replicate]
  rw [zero_smul_vec, hB _ (List.getElem_mem _)]
  rfl

theorem combine_vsum (n k : Nat) (B : Mat α) (xs : List (Vec α)) (hB : ∀ row ∈ B, row.length = n)
    (hx : ∀ x ∈ xs, x.length = k) :
    combine n B (vsum k xs) = vsum n (xs.map (combine n B)) := by
  induction xs with
  | nil => simp [vsum_nil, combine_zeros n k B hB]
  | cons x xs ih =>
    have hxs : ∀ y ∈ xs, y.length = k := fun y hy => hx y (by simp [hy])
    rw [vsum_cons, List.map_cons, vsum_cons,
      combine_vadd n B _ _ (by rw [hx x (by simp), vsum_length k xs hxs]) hB, ih hxs]

theorem combine_combine (n k : Nat) (A B : Mat α) (c : Vec α) (hA : ∀ row ∈ A, row.length = k)
    (hB : ∀ row ∈ B, row.length = n) :
    combine n B (combine k A c) = combine n (mmulL n A B) c := by
  induction A generalizing c with
  | nil => simp [mmulL, combine_nil_left, combine_zeros n k B hB]
  | cons a A ih =>
    have hA' : ∀ row ∈ A, row.length = k := fun r hr => hA r (by simp [hr])
    cases c with
    | nil => simp [combine_nil_right, combine_zeros n k B hB]
    | cons x c =>
      have hm : mmulL n (a :: A) B = combine n B a :: mmulL n A B := rfl
      rw [combine_cons, hm, combine_cons,
        combine_vadd n B _ _ (by rw [smul_length, hA a (by simp), combine_length k A c hA']) hB,
        combine_smul n B x a hB, ih c hA']

theorem mmulL_rows (n : Nat) (A B : Mat α) (hB : ∀ row ∈ B, row.length = n) :
    ∀ row ∈ mmulL n A B, row.length = n := by
  intro row hrow
  obtain ⟨a, _, rfl⟩ := List.mem_map.mp hrow
  exact combine_length n B a hB

theorem mmulL_length (n : Nat) (A B : Mat α) : (mmulL n A B).length = A.length := by
  simp [mmulL]

theorem vsum_exchange {ρ σ : Type} (n : Nat) (xs : List ρ) (ys : List σ) (F : ρ → σ → Vec α)
    (hF : ∀ x y, (F x y).length = n) :
    vsum n (xs.map fun x => vsum n (ys.map fun y => F x y)) =
      vsum n (ys.map fun y => vsum n (xs.map fun x => F x y)) := by
  induction xs with
  | nil =>
    symm
    apply vsum_all_zeros
    intro x hx
    obtain ⟨y, _, rfl⟩ := List.mem_map.mp hx
    rfl
  | cons x xs ih =>
    rw [List.map_cons, vsum_cons, ih, ← vsum_zipWith_vadd n _ _ (by simp)
      (by intro v hv; obtain ⟨y, _, rfl⟩ := List.mem_map.mp hv; exact hF x y)
      (by
        intro v hv
        obtain ⟨y, _, rfl⟩ := List.mem_map.mp hv
        apply vsum_length
        intro w hw
        obtain ⟨x', _, rfl⟩ := List.mem_map.mp hw
        exact hF x' y)]
    rw [List.zipWith_map_left, List.zipWith_map_right, List.zipWith_self]
    congr 1
    apply List.map_congr_left
    intro y _
    rw [List.map_cons, vsum_cons]

theorem madd_comm (A B : Mat α) : madd A B = madd B A := by
  unfold madd
  exact List.zipWith_comm_of_comm (fun a b => vadd_comm a b)

theorem madd_assoc (A B C : Mat α) : madd (madd A B) C = madd A (madd B C) := by
  induction A generalizing B C with
  | nil => simp [madd]
  | cons a A ih =>
    cases B with
    | nil => simp [madd]
    | cons b B =>
      cases C with
      | nil => simp [madd]
      | cons c C =>
        have := ih B C
        simp only [madd] at this ⊢
        simp [vadd_assoc, this]

theorem madd_length (A B : Mat α) : (madd A B).length = min A.length B.length := by
  simp [madd]

theorem foldl_madd (A B : Mat α) (Ms : List (Mat α)) :
    List.foldl madd (madd A B) Ms = madd A (List.foldl madd B Ms) := by
  induction Ms generalizing B with
  | nil => rfl
  | cons M Ms ih => simp only [List.foldl_cons, madd_assoc, ih]

theorem msumL_nil (r n : Nat) : msumL r n ([] : List (Mat α)) = List.replicate r (zeros n) := rfl

theorem msumL_cons (r n : Nat) (M : Mat α) (Ms : List (Mat α)) :
    msumL r n (M :: Ms) = madd M (msumL r n Ms) := by
  unfold msumL
  rw [List.foldl_cons, madd_comm, foldl_madd]

theorem msumL_length (r n : Nat) (Ms : List (Mat α)) (h : ∀ M ∈ Ms, M.length = r) :
    (msumL r n Ms).length = r := by
  induction Ms with
  | nil => simp [msumL_nil]
  | cons M Ms ih =>
    rw [msumL_cons, madd_length, h M (by simp), ih (fun M' hM' => h M' (by simp [hM']))]
    simp

theorem combine_madd (n : Nat) (A B : Mat α) (c : Vec α) (hl : A.length = B.length) :
    combine n (madd A B) c = vadd (combine n A c) (combine n B c) := by
  induction A generalizing B c with
  | nil =>
    cases B with
    | nil =>
      have : madd ([] : Mat α) [] = [] := rfl
      rw [this, combine_nil_left, vadd_zeros _ n (by simp)]
    | cons b B => simp at hl
  | cons a A ih =>
    cases B with
    | nil => simp at hl
    | cons b B =>
      cases c with
      | nil => rw [combine_nil_right, combine_nil_right, combine_nil_right, vadd_zeros _ n (by simp)]
      | cons x c =>
        have : madd (a :: A) (b :: B) = vadd a b :: madd A B := rfl
        rw [this, combine_cons, combine_cons, combine_cons, ih B c (by simpa using hl), smul_vadd]
        rw [vadd_assoc, vadd_assoc]
        congr 1
        rw [← vadd_assoc, ← vadd_assoc, vadd_comm (smul x b)]

theorem combine_msumL (r n : Nat) (Ms : List (Mat α)) (c : Vec α) (h : ∀ M ∈ Ms, M.length = r) :
    combine n (msumL r n Ms) c = vsum n (Ms.map fun M => combine n M c) := by
  induction Ms with
  | nil =>
    rw [msumL_nil, List.map_nil, vsum_nil]
    apply combine_zero_rows
    intro row hrow
    exact (List.mem_replicate.mp hrow).2
  | cons M Ms ih =>
    have h' : ∀ M' ∈ Ms, M'.length = r := fun M' hM' => h M' (by simp [hM'])
    rw [msumL_cons, List.map_cons, vsum_cons,
      combine_madd n M _ c (by rw [h M (by simp), msumL_length r n Ms h']), ih h']

theorem zip_map_self {ρ σ : Type} (l : List ρ) (g : ρ → σ) :
    List.zip l (l.map g) = l.map fun x => (x, g x) := by
  induction l with
  | nil => rfl
  | cons x l ih => simp [ih]

/-- the chain rule through a cut, for vector–Jacobian products -/
theorem vjp_chain' (E : Engine α) (hE : E.WF) (outs mids ins : List Key)
    (hcut : E.CutBy outs mids ins) (cots : List (Vec α)) (i : Key) (hi : i ∈ ins) :
    materialize E i (E.vjp1 mids (mids.map fun f => materialize E f (E.vjp1 outs cots f)) i) =
      materialize E i (E.vjp1 outs cots i) := by
  have h1 : ∀ f, vecMat (E.numel i) (materialize E f (E.vjp1 outs cots f)) (E.block f i) =
      vsum (E.numel i) ((List.zip outs cots).map fun oc =>
        vecMat (E.numel i) oc.2 (mmulL (E.numel i) (E.block oc.1 f) (E.block f i))) := by
    intro f
    rw [vjp1_spec E hE]
    unfold vecMat
    rw [combine_vsum _ (E.numel f) _ _ (block_rows E hE f i)
      (by
        intro x hx
        obtain ⟨oc, _, rfl⟩ := List.mem_map.mp hx
        exact vecMat_length E hE _ _ _), List.map_map]
    congr 1
    apply List.map_congr_left
    intro oc _
    exact combine_combine _ _ _ _ _ (block_rows E hE oc.1 f) (block_rows E hE f i)
  have h2 : ∀ oc ∈ List.zip outs cots, vecMat (E.numel i) oc.2 (E.block oc.1 i) =
      vsum (E.numel i) (mids.map fun f =>
        vecMat (E.numel i) oc.2 (mmulL (E.numel i) (E.block oc.1 f) (E.block f i))) := by
    intro oc hoc
    rw [hcut oc.1 (List.of_mem_zip hoc).1 i hi]
    unfold vecMat
    rw [combine_msumL _ _ _ _
      (by
        intro M hM
        obtain ⟨f, _, rfl⟩ := List.mem_map.mp hM
        rw [mmulL_length, block_length E hE]), List.map_map]
    rfl
  rw [vjp1_spec E hE, vjp1_spec E hE outs cots i, zip_map_self, List.map_map,
    List.map_congr_left h2]
  have h3 : ((fun (oc : Key × Vec α) => vecMat (E.numel i) oc.2 (E.block oc.1 i)) ∘
      fun f => (f, materialize E f (E.vjp1 outs cots f))) =
      fun f => vsum (E.numel i) ((List.zip outs cots).map fun oc =>
        vecMat (E.numel i) oc.2 (mmulL (E.numel i) (E.block oc.1 f) (E.block f i))) := by
    funext f
    exact h1 f
  rw [h3]
  exact vsum_exchange (E.numel i) mids (List.zip outs cots)
    (fun f oc => vecMat (E.numel i) oc.2 (mmulL (E.numel i) (E.block oc.1 f) (E.block f i)))
    (fun f oc => combine_length _ _ _ (mmulL_rows _ _ _ (block_rows E hE f i)))

end chain

/-! ### shapes of the derivative blocks of a program -/
section wf
variable {α : Type} [Semiring α]

def Shape (M : Mat α) (r c : Nat) : Prop := M.length = r ∧ ∀ row ∈ M, row.length = c

def OShape (o : Option (Mat α)) (r c : Nat) : Prop := ∀ M, o = some M → Shape M r c

omit [Semiring α] in
theorem oshape_none (r c : Nat) : OShape (none : Option (Mat α)) r c := by
  intro M h; cases h

theorem shape_ident (m : Nat) : Shape (ident m : Mat α) m m := by
  constructor
  · simp [ident]
  · intro row hrow
    obtain ⟨j, _, rfl⟩ := List.mem_map.mp hrow
    simp

theorem shape_mmul (c : Nat) (A D : Mat α) (hD : ∀ row ∈ D, row.length = c) :
    Shape (mmul c A D) A.length c := by
  constructor
  · simp [mmul]
  · intro row hrow
    obtain ⟨a, _, rfl⟩ := List.mem_map.mp hrow
    exact combine_length c D a hD

theorem shape_rowScale (d : Vec α) (M : Mat α) (r c : Nat) (hd : d.length = r) (hM : Shape M r c) :
    Shape (rowScale d M) r c := by
  constructor
  · simp [rowScale, hd, hM.1]
  · intro row hrow
    unfold rowScale at hrow
    rw [List.mem_iff_getElem] at hrow
    obtain ⟨j, hj, rfl⟩ := hrow
    simp only [List.getElem_zipWith, smul_length]
    exact hM.2 _ (List.getElem_mem _)

theorem shape_madd (A B : Mat α) (r c : Nat) (hA : Shape A r c) (hB : Shape B r c) :
    Shape (madd A B) r c := by
  constructor
  · simp [madd, hA.1, hB.1]
  · intro row hrow
    unfold madd at hrow
    rw [List.mem_iff_getElem] at hrow
    obtain ⟨j, hj, rfl⟩ := hrow
    simp only [List.getElem_zipWith, vadd_length]
    rw [hA.2 _ (List.getElem_mem _), hB.2 _ (List.getElem_mem _)]
    simp

theorem oshape_optAdd (a b : Option (Mat α)) (r c : Nat) (ha : OShape a r c) (hb : OShape b r c) :
    OShape (optAdd a b) r c := by
  cases a with
  | none => simpa [optAdd] using hb
  | some A =>
    cases b with
    | none => simpa [optAdd] using ha
    | some B =>
      intro M hM
      simp only [optAdd, Option.some.injEq] at hM
      subst hM
      exact shape_madd A B r c (ha A rfl) (hb B rfl)

theorem oshape_foldl {σ : Type} (srcs : List σ) (g : σ → Option (Mat α)) (r c : Nat)
    (init : Option (Mat α)) (h0 : OShape init r c) (hg : ∀ s ∈ srcs, OShape (g s) r c) :
    OShape (srcs.foldl (fun d s => optAdd d (g s)) init) r c := by
  induction srcs generalizing init with
  | nil => exact h0
  | cons s srcs ih =>
    rw [List.foldl_cons]
    exact ih _ (oshape_optAdd _ _ r c h0 (hg s (by simp))) (fun s' hs' => hg s' (by simp [hs']))

omit [Semiring α] in
theorem oshape_map (o : Option (Mat α)) (F : Mat α → Mat α) (r c r' c' : Nat) (ho : OShape o r c)
    (hF : ∀ D, Shape D r c → Shape (F D) r' c') : OShape (o.map F) r' c' := by
  cases o with
  | none => exact oshape_none r' c'
  | some D =>
    intro M hM
    simp only [Option.map_some, Option.some.injEq] at hM
    subst hM
    exact hF D (ho D rfl)

theorem foldl_vadd_length {σ : Type} (n : Nat) (srcs : List σ) (g : σ → Vec α) (c : Vec α)
    (hc : c.length = n) (hg : ∀ s ∈ srcs, (g s).length = n) :
    (srcs.foldl (fun v s => vadd v (g s)) c).length = n := by
  induction srcs generalizing c with
  | nil => exact hc
  | cons s srcs ih =>
    rw [List.foldl_cons]
    exact ih _ (by rw [vadd_length, hc, hg s (by simp)]; simp) (fun s' hs' => hg s' (by simp [hs']))

theorem matVec_length (J : Mat α) (v : Vec α) : (matVec J v).length = J.length := by
  simp [matVec]

omit [Semiring α] in
theorem prog_getD (p : Prog α) (n : Nat) (hn : n < p.length) : p.getD n (.detach 0) = p[n] := by
  rw [List.getD_eq_getElem?_getD, List.getElem?_eq_getElem hn]; rfl

/-- `Prog.WF` restated with `dflt` and `p[n]` -/
theorem wf_at (p : Prog α) (hp : p.WF) (n : Nat) (hn : n < p.length) :
    (p[n]).WFAt n (fun k => (p.infos.getD k dflt).numel) := by
  have h := hp n hn
  rw [prog_getD p n hn] at h
  exact h

/-- the values of every node have as many entries as its `numel` -/
theorem info_vals_length (p : Prog α) (hp : p.WF) (n : Nat) (hn : n < p.length) :
    (p.infos.getD n dflt).vals.length = (p.infos.getD n dflt).numel := by
  induction n using Nat.strong_induction_on with
  | _ n ih =>
    have hw := wf_at p hp n hn
    rw [infos_getD p n hn]
    cases hnode : p[n] with
    | leaf n' d rg vals =>
      rw [hnode] at hw
      exact hw
    | aff n' d srcs c =>
      rw [hnode] at hw
      obtain ⟨hc, hs⟩ := hw
      show (srcs.foldl (fun v (s : Nat × Mat α) =>
        vadd v (matVec s.2 ((infosAcc p n).getD s.1 dflt).vals)) c).length = n'
      apply foldl_vadd_length n' srcs _ c hc
      intro s hsm
      rw [matVec_length]
      exact (hs s hsm).2.1
    | mul a b =>
      rw [hnode] at hw
      obtain ⟨ha, hb, hab⟩ := hw
      show (List.zipWith (· * ·) ((infosAcc p n).getD a dflt).vals
        ((infosAcc p n).getD b dflt).vals).length = ((infosAcc p n).getD a dflt).numel
      rw [infosAcc_getD p n a (by omega) ha, infosAcc_getD p n b (by omega) hb,
        List.length_zipWith, ih a ha (by omega), ih b hb (by omega)]
      simp only [] at hab
      rw [hab]
      simp
    | detach a =>
      rw [hnode] at hw
      show ((infosAcc p n).getD a dflt).vals.length = ((infosAcc p n).getD a dflt).numel
      have ha : a < n := hw
      rw [infosAcc_getD p n a (by omega) ha]
      exact ih a ha (by omega)

/-- every derivative entry has the shape `numel n × numel i` -/
theorem deriv_shape (p : Prog α) (hp : p.WF) (i n : Nat) (hn : n < p.length) :
    OShape ((p.deriv p.infos i).getD n none) (p.infos.getD n dflt).numel
      (p.infos.getD i dflt).numel := by
  induction n using Nat.strong_induction_on with
  | _ n ih =>
    have hw := wf_at p hp n hn
    have hacc : ∀ k, k < n → OShape ((derivAcc p p.infos i n).getD k none)
        (p.infos.getD k dflt).numel (p.infos.getD i dflt).numel := by
      intro k hk
      rw [derivAcc_getD p p.infos i n k (by omega) hk]
      exact ih k hk (by omega)
    rw [deriv_getD p p.infos i n hn]
    by_cases h1 : n = i
    · subst h1
      simp only [derivStep, if_true]
      intro M hM
      simp only [Option.some.injEq] at hM
      subst hM
      exact shape_ident _
    by_cases h2 : n < i
    · simp only [derivStep, h1, h2, if_true, if_false]
      exact oshape_none _ _
    rw [infos_getD p n hn]
    cases hnode : p[n] with
    | leaf n' d rg vals =>
      simp only [derivStep, h1, h2, if_false]
      exact oshape_none _ _
    | detach a =>
      simp only [derivStep, h1, h2, if_false]
      exact oshape_none _ _
    | aff n' d srcs c =>
      rw [hnode] at hw
      obtain ⟨hc, hs⟩ := hw
      simp only [derivStep, h1, h2, if_false]
      show OShape _ n' _
      apply oshape_foldl srcs _ n' _ none (oshape_none _ _)
      intro s hsm
      obtain ⟨hlt, hlen, _⟩ := hs s hsm
      apply oshape_map _ _ _ _ _ _ (hacc s.1 hlt)
      intro D hD
      rw [← hlen]
      exact shape_mmul _ s.2 D hD.2
    | mul a b =>
      rw [hnode] at hw
      obtain ⟨ha, hb, hab⟩ := hw
      simp only [] at hab
      simp only [derivStep, h1, h2, if_false]
      show OShape _ ((infosAcc p n).getD a dflt).numel _
      rw [infosAcc_getD p n a (by omega) ha]
      apply oshape_optAdd
      · apply oshape_map _ _ _ _ _ _ (hacc a ha)
        intro D hD
        exact shape_rowScale _ D _ _ (by rw [info_vals_length p hp b (by omega), hab]) hD
      · apply oshape_map _ _ _ _ _ _ (hacc b hb)
        intro D hD
        rw [hab]
        exact shape_rowScale _ D _ _ (by rw [info_vals_length p hp a (by omega), hab]) (hab ▸ hD)

theorem engine_wf (p : Prog α) (hp : p.WF) : (p.engine).1.WF := by
  intro (o : Nat) (i : Nat) M hM
  by_cases hi : i < p.length
  · rw [engine_jac_lt p o i hi] at hM
    by_cases ho : o < p.length
    · rw [engine_numel, engine_numel]
      exact deriv_shape p hp i o ho M hM
    · rw [deriv_getD_ge p _ i o (by omega)] at hM
      cases hM
  · rw [engine_jac_ge p o i (by omega)] at hM
    cases hM

end wf

end Tjd.Autojac.ProgL
