/- helper lemmas for TjdProps/C15b.lean -/
import Mathlib.Algebra.Ring.Defs
import TjdModel.Autojac.ProgSpec
import TjdLemmas.AutojacLemmas
namespace Tjd.Autojac

end Tjd.Autojac
