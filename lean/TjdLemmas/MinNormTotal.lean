/- COMPLETENESS of the certified min-norm search `minNorm` and EXISTENCE of the minimum-norm point of the
   hull, over an arbitrary linearly ordered field (purely algebraic: no compactness).

   Idea (finite descent over the faces `Δ_T` of the simplex): for nonempty `T` call the KKT matrix
   `K_T = [[A_TT, -1], [1ᵀ, 0]]` *regular* when its kernel is trivial.  By strong induction on `T` every
   face has a minimiser whose support is regular:
   * `K_T` regular: the affine minimiser `x` on the face exists (an injective endomorphism of a
     finite-dimensional space is surjective).  If `x > 0` on `T` it is the answer; otherwise every point of
     the face can be moved along the segment towards `x` (which does not increase `q`) until it hits a
     proper face;
   * `K_T` singular: a kernel vector `y` satisfies `A y = 0`, `Σ y = 0`, so every point of the face can be
     moved along `y` (which does not change `q`) until it hits a proper face.
   At the minimiser `a` the variational inequality holds with equality on the support, hence the
   candidate the search builds for the support of `a` is `a` itself (Gauss–Jordan on a regular system,
   `solve_complete_qpc`) and passes the check.
   Helper for TjdProps/C04.lean.  All helper names carry the suffix `_mnt`. -/
import Mathlib.Algebra.Order.Field.Basic
import Mathlib.LinearAlgebra.FiniteDimensional.Basic
import Mathlib.Data.Finset.Max
import Mathlib.Tactic.Linarith
import Mathlib.Tactic.Ring
import TjdModel.Agg.Spec2
import TjdLemmas.QPExist
import TjdLemmas.QPComplete
import TjdLemmas.FWLemmas
namespace Tjd.Agg
open Tjd Matrix
set_option linter.unusedSectionVars false
set_option linter.unusedSimpArgs false
set_option linter.unusedVariables false

/-! ### abstract statements on `Fin m → α` -/
section abstract
variable {α : Type} [Field α] [LinearOrder α] [IsStrictOrderedRing α] {m : Nat}

/-- the face of the simplex spanned by the vertices in `T` -/
def InFace_mnt (T : Finset (Fin m)) (z : Fin m → α) : Prop :=
  (∀ i, 0 ≤ z i) ∧ (∀ i, i ∉ T → z i = 0) ∧ ∑ i, z i = 1

/-- the KKT matrix `[[A_TT, -1], [1ᵀ, 0]]` has trivial kernel -/
def TrivKer_mnt (A : Matrix (Fin m) (Fin m) α) (T : Finset (Fin m)) : Prop :=
  ∀ (y : Fin m → α) (μ : α), (∀ i, i ∉ T → y i = 0) → (∀ i, i ∈ T → (A *ᵥ y) i = μ) →
    ∑ i, y i = 0 → y = 0

/-- support of a vector -/
def supp_mnt (a : Fin m → α) : Finset (Fin m) := Finset.univ.filter fun i => a i ≠ 0

theorem mem_supp_mnt (a : Fin m → α) (i : Fin m) : i ∈ supp_mnt a ↔ a i ≠ 0 := by
  simp [supp_mnt]

/-- a minimiser on the face `Δ_T` whose support is regular -/
def Good_mnt (A : Matrix (Fin m) (Fin m) α) (T : Finset (Fin m)) (a : Fin m → α) : Prop :=
  InFace_mnt T a ∧ (∀ z, InFace_mnt T z → a ⬝ᵥ A *ᵥ a ≤ z ⬝ᵥ A *ᵥ z) ∧ TrivKer_mnt A (supp_mnt a)

theorem inFace_mono_mnt {T T' : Finset (Fin m)} (h : T' ⊆ T) {z : Fin m → α}
    (hz : InFace_mnt T' z) : InFace_mnt T z :=
  ⟨hz.1, fun i hi => hz.2.1 i (fun h' => hi (h h')), hz.2.2⟩

theorem inFace_erase_mnt {T : Finset (Fin m)} {z : Fin m → α} (hz : InFace_mnt T z) (i : Fin m)
    (hi : z i = 0) : InFace_mnt (T.erase i) z := by
  refine ⟨hz.1, fun j hj => ?_, hz.2.2⟩
  by_cases hji : j = i
  · rw [hji]; exact hi
  · exact hz.2.1 j (fun h => hj (Finset.mem_erase.mpr ⟨hji, h⟩))

theorem inFace_nonempty_mnt {T : Finset (Fin m)} {z : Fin m → α} (hz : InFace_mnt T z) :
    T.Nonempty := by
  by_contra hne
  rw [Finset.not_nonempty_iff_eq_empty] at hne
  have : ∑ i, z i = 0 := Finset.sum_eq_zero fun i _ => hz.2.1 i (by rw [hne]; simp)
  rw [hz.2.2] at this
  exact one_ne_zero this

theorem inFace_vertex_mnt (T : Finset (Fin m)) (t : Fin m) (ht : t ∈ T) :
    InFace_mnt T (Pi.single t (1 : α)) := by
  refine ⟨fun i => ?_, fun i hi => ?_, ?_⟩
  · by_cases h : i = t
    · subst h; simp
    · simp [Pi.single_eq_of_ne h]
  · have : i ≠ t := fun h => hi (h ▸ ht)
    simp [Pi.single_eq_of_ne this]
  · simp

/-- the linear map of the KKT system of the face `T`: `(x, λ) ↦ ((A x)_T - λ, x_{Tᶜ}; Σ x)` -/
def kktMap_mnt (A : Matrix (Fin m) (Fin m) α) (T : Finset (Fin m)) :
    ((Fin m → α) × α) →ₗ[α] ((Fin m → α) × α) where
  toFun p := (fun i => if i ∈ T then (A *ᵥ p.1) i - p.2 else p.1 i, ∑ i, p.1 i)
  map_add' p q := by
    refine Prod.ext ?_ ?_
    · funext i
      by_cases h : i ∈ T
      · simp [h, mulVec_add]; ring
      · simp [h]
    · simp [Finset.sum_add_distrib]
  map_smul' c p := by
    refine Prod.ext ?_ ?_
    · funext i
      by_cases h : i ∈ T
      · simp [h, mulVec_smul]; ring
      · simp [h]
    · simp [Finset.mul_sum]

theorem kktMap_apply_mnt (A : Matrix (Fin m) (Fin m) α) (T : Finset (Fin m))
    (p : (Fin m → α) × α) :
    kktMap_mnt A T p = (fun i => if i ∈ T then (A *ᵥ p.1) i - p.2 else p.1 i, ∑ i, p.1 i) := rfl

theorem kktMap_injective_mnt (A : Matrix (Fin m) (Fin m) α) (T : Finset (Fin m)) (hT : T.Nonempty)
    (hk : TrivKer_mnt A T) : Function.Injective (kktMap_mnt A T) := by
  refine (injective_iff_map_eq_zero (kktMap_mnt A T)).mpr fun p hp => ?_
  rw [kktMap_apply_mnt] at hp
  have h1 := congrArg Prod.fst hp
  have h2 : ∑ i, p.1 i = 0 := congrArg Prod.snd hp
  have hoff : ∀ i, i ∉ T → p.1 i = 0 := by
    intro i hi
    have := congrFun h1 i
    simpa [hi] using this
  have hon : ∀ i, i ∈ T → (A *ᵥ p.1) i = p.2 := by
    intro i hi
    have := congrFun h1 i
    simp only [hi, if_true, Prod.fst_zero, Pi.zero_apply] at this
    exact sub_eq_zero.mp this
  have hy := hk p.1 p.2 hoff hon h2
  obtain ⟨i0, hi0⟩ := hT
  have hmu := hon i0 hi0
  rw [hy, mulVec_zero] at hmu
  exact Prod.ext hy hmu.symm

/-- on a regular face the affine KKT system is solvable -/
theorem kkt_solvable_mnt (A : Matrix (Fin m) (Fin m) α) (T : Finset (Fin m)) (hT : T.Nonempty)
    (hk : TrivKer_mnt A T) :
    ∃ (x : Fin m → α) (lam : α), (∀ i, i ∉ T → x i = 0) ∧ (∀ i, i ∈ T → (A *ᵥ x) i = lam) ∧
      ∑ i, x i = 1 := by
  obtain ⟨p, hp⟩ := (LinearMap.injective_iff_surjective.mp (kktMap_injective_mnt A T hT hk))
    ((0 : Fin m → α), (1 : α))
  rw [kktMap_apply_mnt] at hp
  have h1 := congrArg Prod.fst hp
  have h2 : ∑ i, p.1 i = 1 := congrArg Prod.snd hp
  refine ⟨p.1, p.2, fun i hi => ?_, fun i hi => ?_, h2⟩
  · have := congrFun h1 i
    simpa [hi] using this
  · have := congrFun h1 i
    simp only [hi, if_true, Pi.zero_apply] at this
    exact sub_eq_zero.mp this

/-- the cross term vanishes on the affine hull of the face -/
theorem cross_zero_mnt (A : Matrix (Fin m) (Fin m) α) (T : Finset (Fin m)) (x d : Fin m → α)
    (lam : α) (hon : ∀ i, i ∈ T → (A *ᵥ x) i = lam) (hdoff : ∀ i, i ∉ T → d i = 0)
    (hdsum : ∑ i, d i = 0) : d ⬝ᵥ A *ᵥ x = 0 := by
  have : d ⬝ᵥ A *ᵥ x = ∑ i, d i * lam := by
    apply Finset.sum_congr rfl
    intro i _
    by_cases h : i ∈ T
    · rw [hon i h]
    · rw [hdoff i h, zero_mul, zero_mul]
  rw [this, ← Finset.sum_mul, hdsum, zero_mul]

/-- moving from a point of the face along a direction with a negative entry until a coordinate
    vanishes -/
theorem ray_boundary_mnt (T : Finset (Fin m)) (z d : Fin m → α) (hz : InFace_mnt T z)
    (hdoff : ∀ i, i ∉ T → d i = 0) (hdsum : ∑ i, d i = 0) (i1 : Fin m) (hi1 : d i1 < 0) :
    ∃ t : α, 0 ≤ t ∧ t * (-(d i1)) ≤ z i1 ∧ InFace_mnt T (z + t • d) ∧
      ∃ i0, i0 ∈ T ∧ (z + t • d) i0 = 0 := by
  have hN : (Finset.univ.filter fun i => d i < 0).Nonempty :=
    ⟨i1, Finset.mem_filter.mpr ⟨Finset.mem_univ _, hi1⟩⟩
  obtain ⟨i0, hi0N, hi0min⟩ := Finset.exists_min_image _ (fun i => z i / (-(d i))) hN
  have hi0 : d i0 < 0 := (Finset.mem_filter.mp hi0N).2
  have hmul : ∀ i, d i < 0 → z i / (-(d i)) * (-(d i)) = z i :=
    fun i hi => div_mul_cancel₀ _ (by linarith : -(d i) ≠ 0)
  have hmin' : ∀ i, d i < 0 → z i0 / (-(d i0)) ≤ z i / (-(d i)) :=
    fun i hi => hi0min i (Finset.mem_filter.mpr ⟨Finset.mem_univ _, hi⟩)
  have ht0 : 0 ≤ z i0 / (-(d i0)) := div_nonneg (hz.1 i0) (by linarith)
  have hmul0 := hmul i0 hi0
  have hi0T : i0 ∈ T := by
    by_contra h
    have := hdoff i0 h
    linarith
  generalize z i0 / (-(d i0)) = t at hmin' hmul0 ht0
  have hle : ∀ i, d i < 0 → t * (-(d i)) ≤ z i := by
    intro i hi
    have h2 := mul_le_mul_of_nonneg_right (hmin' i hi) (by linarith : 0 ≤ -(d i))
    rwa [hmul i hi] at h2
  refine ⟨t, ht0, hle i1 hi1, ⟨fun i => ?_, fun i hi => ?_, ?_⟩, i0, hi0T, ?_⟩
  · simp only [Pi.add_apply, Pi.smul_apply, smul_eq_mul]
    by_cases hi : d i < 0
    · have := hle i hi
      linarith
    · have a := hz.1 i
      have b := mul_nonneg ht0 (not_lt.mp hi)
      linarith
  · simp only [Pi.add_apply, Pi.smul_apply, smul_eq_mul]
    rw [hz.2.1 i hi, hdoff i hi]; simp
  · simp only [Pi.add_apply, Pi.smul_apply, smul_eq_mul]
    rw [Finset.sum_add_distrib, ← Finset.mul_sum, hdsum, hz.2.2]; simp
  · simp only [Pi.add_apply, Pi.smul_apply, smul_eq_mul]
    linarith

/-- if every point of the face can be moved to the relative boundary without increasing `q`, the best
    of the minimisers of the proper faces is a minimiser of the face -/
theorem reduce_mnt (A : Matrix (Fin m) (Fin m) α) (T : Finset (Fin m)) (hT : T.Nonempty)
    (ih : ∀ T', T' ⊂ T → T'.Nonempty → ∃ a, Good_mnt A T' a)
    (hb : ∀ z, InFace_mnt T z → ∃ z', InFace_mnt T z' ∧ (∃ i, i ∈ T ∧ z' i = 0) ∧
      z' ⬝ᵥ A *ᵥ z' ≤ z ⬝ᵥ A *ᵥ z) : ∃ a, Good_mnt A T a := by
  have ih' : ∀ i, ∃ a : Fin m → α, i ∈ T → (T.erase i).Nonempty → Good_mnt A (T.erase i) a := by
    intro i
    by_cases h : i ∈ T ∧ (T.erase i).Nonempty
    · obtain ⟨a, ha⟩ := ih _ (Finset.erase_ssubset h.1) h.2
      exact ⟨a, fun _ _ => ha⟩
    · exact ⟨0, fun h1 h2 => absurd ⟨h1, h2⟩ h⟩
  choose W hW using ih'
  -- the proper faces that are non-empty
  obtain ⟨t0, ht0⟩ := hT
  obtain ⟨z0, hz0, ⟨j0, hj0T, hj0⟩, _⟩ := hb _ (inFace_vertex_mnt T t0 ht0)
  have hF : (T.filter fun i => (T.erase i).Nonempty).Nonempty :=
    ⟨j0, Finset.mem_filter.mpr ⟨hj0T, inFace_nonempty_mnt (inFace_erase_mnt hz0 j0 hj0)⟩⟩
  obtain ⟨i0, hi0F, hi0min⟩ := Finset.exists_min_image _ (fun i => W i ⬝ᵥ A *ᵥ W i) hF
  obtain ⟨hi0T, hi0ne⟩ := Finset.mem_filter.mp hi0F
  obtain ⟨g1, g2, g3⟩ := hW i0 hi0T hi0ne
  refine ⟨W i0, inFace_mono_mnt (Finset.erase_subset _ _) g1, fun z hz => ?_, g3⟩
  obtain ⟨z', hz', ⟨j, hjT, hj⟩, hq⟩ := hb z hz
  have hz'e := inFace_erase_mnt hz' j hj
  have hjne := inFace_nonempty_mnt hz'e
  have h1 := hi0min j (Finset.mem_filter.mpr ⟨hjT, hjne⟩)
  have h2 := (hW j hjT hjne).2.1 z' hz'e
  exact (h1.trans h2).trans hq

/-- every face of the simplex has a minimiser with regular support -/
theorem face_good_mnt (A : Matrix (Fin m) (Fin m) α) (hA : Aᵀ = A)
    (hpsd : ∀ f : Fin m → α, 0 ≤ f ⬝ᵥ A *ᵥ f)
    (hN : ∀ f : Fin m → α, f ⬝ᵥ A *ᵥ f = 0 → A *ᵥ f = 0) (T : Finset (Fin m))
    (hT : T.Nonempty) : ∃ a, Good_mnt A T a := by
  induction T using Finset.strongInduction with
  | H T ih =>
    by_cases hk : TrivKer_mnt A T
    · obtain ⟨x, lam, hxoff, hxon, hxsum⟩ := kkt_solvable_mnt A T hT hk
      have hseg : ∀ z, InFace_mnt T z → ∀ t : α, 0 ≤ t → t ≤ 1 →
          (z + t • (x - z)) ⬝ᵥ A *ᵥ (z + t • (x - z)) ≤ z ⬝ᵥ A *ᵥ z := by
        intro z hz t ht0 ht1
        refine qfF_seg_le A hA hpsd z x (cross_zero_mnt A T x (x - z) lam hxon ?_ ?_) t ht0 ht1
        · intro i hi
          rw [Pi.sub_apply, hxoff i hi, hz.2.1 i hi, sub_self]
        · simp only [Pi.sub_apply]
          rw [Finset.sum_sub_distrib, hxsum, hz.2.2, sub_self]
      by_cases hpos : ∀ i, i ∈ T → 0 < x i
      · -- the affine minimiser is in the relative interior of the face
        have hsupp : supp_mnt x = T := by
          ext i
          rw [mem_supp_mnt]
          constructor
          · intro h
            by_contra hi
            exact h (hxoff i hi)
          · intro h
            exact (hpos i h).ne'
        refine ⟨x, ⟨fun i => ?_, hxoff, hxsum⟩, fun z hz => ?_, by rw [hsupp]; exact hk⟩
        · by_cases hi : i ∈ T
          · exact (hpos i hi).le
          · rw [hxoff i hi]
        · have := hseg z hz 1 zero_le_one le_rfl
          rwa [one_smul, add_sub_cancel] at this
      · -- some coordinate of the affine minimiser is not positive: go to the boundary
        simp only [not_forall, not_lt] at hpos
        obtain ⟨i1, hi1T, hi1⟩ := hpos
        apply reduce_mnt A T hT (fun T' h1 h2 => ih T' h1 h2)
        intro z hz
        by_cases hz1 : z i1 = 0
        · exact ⟨z, hz, ⟨i1, hi1T, hz1⟩, le_rfl⟩
        · have hz1' : 0 < z i1 := lt_of_le_of_ne (hz.1 i1) (Ne.symm hz1)
          obtain ⟨t, ht0, ht1, hf, hb⟩ := ray_boundary_mnt T z (x - z) hz
            (fun i hi => by rw [Pi.sub_apply, hxoff i hi, hz.2.1 i hi, sub_self])
            (by simp only [Pi.sub_apply]; rw [Finset.sum_sub_distrib, hxsum, hz.2.2, sub_self])
            i1 (by rw [Pi.sub_apply]; linarith)
          have ht1' : t ≤ 1 := by
            by_contra h
            have h' : 1 < t := not_le.mp h
            rw [Pi.sub_apply] at ht1
            nlinarith
          exact ⟨_, hf, hb, hseg z hz t ht0 ht1'⟩
    · -- singular face: move along a kernel vector
      unfold TrivKer_mnt at hk
      simp only [not_forall] at hk
      obtain ⟨y, μ, hyoff, hyon, hysum, hy⟩ := hk
      have hq0 : y ⬝ᵥ A *ᵥ y = 0 := cross_zero_mnt A T y y μ hyon hyoff hysum
      have hAy : A *ᵥ y = 0 := hN y hq0
      have hneg : ∃ i, y i < 0 := by
        by_contra h
        simp only [not_exists, not_lt] at h
        have := (Finset.sum_eq_zero_iff_of_nonneg (fun i _ => h i)).mp hysum
        exact hy (funext fun i => this i (Finset.mem_univ i))
      obtain ⟨i1, hi1⟩ := hneg
      apply reduce_mnt A T hT (fun T' h1 h2 => ih T' h1 h2)
      intro z hz
      obtain ⟨t, ht0, _, hf, hb⟩ := ray_boundary_mnt T z y hz hyoff hysum i1 hi1
      refine ⟨_, hf, hb, le_of_eq ?_⟩
      rw [qfF_line_qpx A hA, qfF_symm A hA z y, hAy]
      simp

/-- at a minimiser on the simplex the variational inequality holds at every vertex -/
theorem cert_of_min_mnt (A : Matrix (Fin m) (Fin m) α) (hA : Aᵀ = A) (a : Fin m → α)
    (ha : InFace_mnt Finset.univ a)
    (hmin : ∀ z, InFace_mnt Finset.univ z → a ⬝ᵥ A *ᵥ a ≤ z ⬝ᵥ A *ᵥ z) (i : Fin m) :
    a ⬝ᵥ A *ᵥ a ≤ (A *ᵥ a) i := by
  by_contra hlt
  have hlt' : (A *ᵥ a) i < a ⬝ᵥ A *ᵥ a := not_le.mp hlt
  have he := inFace_vertex_mnt (α := α) Finset.univ i (Finset.mem_univ i)
  have hd : (Pi.single i (1 : α) - a) ⬝ᵥ A *ᵥ a = (A *ᵥ a) i - a ⬝ᵥ A *ᵥ a := by
    rw [sub_dotProduct, single_one_dotProduct]
  have key : ∀ t : α, 0 ≤ t → t ≤ 1 →
      0 ≤ 2 * t * ((Pi.single i (1 : α) - a) ⬝ᵥ A *ᵥ a) +
        t * t * ((Pi.single i (1 : α) - a) ⬝ᵥ A *ᵥ (Pi.single i (1 : α) - a)) := by
    intro t ht0 ht1
    have hf : InFace_mnt Finset.univ (a + t • (Pi.single i (1 : α) - a)) := by
      refine ⟨fun j => ?_, fun j hj => absurd (Finset.mem_univ j) hj, ?_⟩
      · simp only [Pi.add_apply, Pi.smul_apply, Pi.sub_apply, smul_eq_mul]
        have a1 := mul_nonneg (sub_nonneg.2 ht1) (ha.1 j)
        have b1 := mul_nonneg ht0 (he.1 j)
        linarith
      · simp only [Pi.add_apply, Pi.smul_apply, Pi.sub_apply, smul_eq_mul]
        rw [Finset.sum_add_distrib, ← Finset.mul_sum, Finset.sum_sub_distrib, ha.2.2, he.2.2]
        ring
    have h := hmin _ hf
    rw [qfF_line_qpx A hA] at h
    linarith
  rw [hd] at key
  have hg : (A *ᵥ a) i - a ⬝ᵥ A *ᵥ a < 0 := by linarith
  generalize (A *ᵥ a) i - a ⬝ᵥ A *ᵥ a = g at hg key
  generalize (Pi.single i (1 : α) - a) ⬝ᵥ A *ᵥ (Pi.single i (1 : α) - a) = Q at key
  by_cases hQ : Q ≤ -g
  · have := key 1 zero_le_one le_rfl
    linarith
  · have hQ' : -g < Q := not_le.mp hQ
    have hQpos : 0 < Q := by linarith
    have ht0 : 0 < -g / Q := div_pos (by linarith) hQpos
    have ht1 : -g / Q < 1 := (div_lt_one hQpos).mpr hQ'
    have hk := key (-g / Q) ht0.le ht1.le
    have e : -g / Q * Q = -g := div_mul_cancel₀ _ hQpos.ne'
    have e2 : 2 * (-g / Q) * g + -g / Q * (-g / Q) * Q = -g / Q * g := by
      rw [mul_assoc (-g / Q) (-g / Q) Q, e]; ring
    rw [e2] at hk
    have := mul_neg_of_pos_of_neg ht0 hg
    linarith

/-- ... with equality on the support -/
theorem cert_eq_on_supp_mnt (A : Matrix (Fin m) (Fin m) α) (a : Fin m → α)
    (ha : InFace_mnt Finset.univ a) (hcert : ∀ i, a ⬝ᵥ A *ᵥ a ≤ (A *ᵥ a) i) (i : Fin m)
    (hi : a i ≠ 0) : (A *ᵥ a) i = a ⬝ᵥ A *ᵥ a := by
  have hsum : ∑ j, a j * ((A *ᵥ a) j - a ⬝ᵥ A *ᵥ a) = 0 := by
    simp only [mul_sub]
    rw [Finset.sum_sub_distrib, ← Finset.sum_mul, ha.2.2, one_mul]
    exact sub_self _
  have hnn : ∀ j ∈ Finset.univ, 0 ≤ a j * ((A *ᵥ a) j - a ⬝ᵥ A *ᵥ a) :=
    fun j _ => mul_nonneg (ha.1 j) (sub_nonneg.mpr (hcert j))
  have := (Finset.sum_eq_zero_iff_of_nonneg hnn).mp hsum i (Finset.mem_univ i)
  rcases mul_eq_zero.mp this with h | h
  · exact absurd h hi
  · exact sub_eq_zero.mp h

/-- a regular KKT system has at most one solution -/
theorem kkt_unique_mnt (A : Matrix (Fin m) (Fin m) α) (T : Finset (Fin m))
    (hk : TrivKer_mnt A T) (x x' : Fin m → α) (lam lam' : α)
    (hoff : ∀ i, i ∉ T → x i = 0) (hon : ∀ i, i ∈ T → (A *ᵥ x) i = lam) (hsum : ∑ i, x i = 1)
    (hoff' : ∀ i, i ∉ T → x' i = 0) (hon' : ∀ i, i ∈ T → (A *ᵥ x') i = lam')
    (hsum' : ∑ i, x' i = 1) : x = x' := by
  have := hk (x - x') (lam - lam')
    (fun i hi => by rw [Pi.sub_apply, hoff i hi, hoff' i hi, sub_self])
    (fun i hi => by rw [mulVec_sub, Pi.sub_apply, hon i hi, hon' i hi])
    (by simp only [Pi.sub_apply]; rw [Finset.sum_sub_distrib, hsum, hsum', sub_self])
  exact sub_eq_zero.mp this

/-- the Gramian form vanishes only on the kernel -/
theorem gram_null_mnt {n : Nat} (B : Matrix (Fin m) (Fin n) α) (f : Fin m → α)
    (h : f ⬝ᵥ (B * Bᵀ) *ᵥ f = 0) : (B * Bᵀ) *ᵥ f = 0 := by
  rw [qfF_gram] at h
  have h0 : f ᵥ* B = 0 := by
    by_contra hne
    have := dotProduct_self_pos' _ hne
    linarith
  rw [← mulVec_mulVec, mulVec_transpose, h0, mulVec_zero]

end abstract

/-! ### list level: the candidate of a regular support -/
section listlevel
variable {α : Type} [Field α] [LinearOrder α] [IsStrictOrderedRing α]

/-- the indices selected by a Boolean predicate -/
def idxL_mnt (m : Nat) (p : Nat → Bool) : List Nat := (List.range m).filter p

/-- the KKT matrix `[[G_SS, -1], [1ᵀ, 0]]` built by `minNormCandidate` -/
def candA_mnt (G : Mat α) (idx : List Nat) : Mat α :=
  (idx.map fun i => (idx.map fun j => (G.getD i []).getD j 0) ++ [(-1 : α)]) ++
    [List.replicate idx.length (1 : α) ++ [(0 : α)]]

def candB_mnt (k : Nat) : Vec α := List.replicate k (0 : α) ++ [(1 : α)]

/-- `x_p` at index `idx[p]`, zero elsewhere -/
def scatter_mnt (m : Nat) (idx : List Nat) (x : Vec α) : Vec α :=
  (List.range m).map fun i =>
    match idx.zipIdx.find? (·.1 == i) with
    | some (_, p) => x.getD p 0
    | none => 0

theorem minNormCandidate_unfold_mnt (G : Mat α) (supp : List Bool) :
    minNormCandidate G supp =
      if (idxL_mnt G.length fun i => supp.getD i false).isEmpty then none else
      match solve (candA_mnt G (idxL_mnt G.length fun i => supp.getD i false))
          (candB_mnt (idxL_mnt G.length fun i => supp.getD i false).length)
          ((idxL_mnt G.length fun i => supp.getD i false).length + 1) with
      | none => none
      | some x => some (scatter_mnt G.length (idxL_mnt G.length fun i => supp.getD i false) x) :=
  rfl

theorem mem_idxL_mnt (m : Nat) (p : Nat → Bool) (i : Nat) :
    i ∈ idxL_mnt m p ↔ i < m ∧ p i = true := by
  simp [idxL_mnt, List.mem_filter, List.mem_range]

theorem idxL_nodup_mnt (m : Nat) (p : Nat → Bool) : (idxL_mnt m p).Nodup :=
  List.Nodup.filter _ List.nodup_range

theorem append_single_getD_mnt (L : List α) (v : α) (c : Nat) :
    (L ++ [v]).getD c 0 = if c < L.length then L.getD c 0 else if c = L.length then v else 0 := by
  rw [List.getD_eq_getElem?_getD]
  by_cases hc : c < L.length
  · rw [List.getElem?_append_left hc, if_pos hc, List.getD_eq_getElem?_getD]
  · rw [List.getElem?_append_right (by omega), if_neg hc]
    by_cases hcn : c = L.length
    · simp [hcn]
    · have : c - L.length = (c - L.length - 1) + 1 := by omega
      rw [this]
      simp [hcn]

theorem candA_length_mnt (G : Mat α) (idx : List Nat) :
    (candA_mnt G idx).length = idx.length + 1 := by
  simp [candA_mnt]

theorem candA_rowlen_mnt (G : Mat α) (idx : List Nat) :
    ∀ row ∈ candA_mnt G idx, row.length = idx.length + 1 := by
  intro row hrow
  simp only [candA_mnt, List.mem_append, List.mem_map, List.mem_singleton] at hrow
  rcases hrow with ⟨i, _, rfl⟩ | rfl <;> simp

theorem candA_row_lt_mnt (G : Mat α) (idx : List Nat) (a : Nat) (ha : a < idx.length) :
    (candA_mnt G idx).getD a [] =
      (idx.map fun j => (G.getD (idx.getD a 0) []).getD j 0) ++ [(-1 : α)] := by
  unfold candA_mnt
  rw [List.getD_eq_getElem?_getD, List.getElem?_append_left (by simpa using ha)]
  simp [List.getD_eq_getElem?_getD, List.getElem?_eq_getElem ha]

theorem candA_row_last_mnt (G : Mat α) (idx : List Nat) :
    (candA_mnt G idx).getD idx.length [] = List.replicate idx.length (1 : α) ++ [(0 : α)] := by
  unfold candA_mnt
  rw [List.getD_eq_getElem?_getD, List.getElem?_append_right (by simp)]
  simp

theorem map_getD_idx_mnt (idx : List Nat) (f : Nat → α) (c : Nat) (hc : c < idx.length) :
    (idx.map f).getD c 0 = f (idx.getD c 0) := by
  simp [List.getD_eq_getElem?_getD, List.getElem?_eq_getElem hc]

/-- a row of the KKT matrix applied to a vector: rows of the support -/
theorem rowsum_lt_mnt (G : Mat α) (idx : List Nat) (y : Nat → α) (a : Nat) (ha : a < idx.length) :
    ∑ c ∈ Finset.range (idx.length + 1), ent_qpc (candA_mnt G idx) a c * y c =
      ∑ c ∈ Finset.range idx.length, ent_qpc G (idx.getD a 0) (idx.getD c 0) * y c -
        y idx.length := by
  rw [Finset.sum_range_succ]
  have e1 : ∀ c ∈ Finset.range idx.length, ent_qpc (candA_mnt G idx) a c * y c =
      ent_qpc G (idx.getD a 0) (idx.getD c 0) * y c := by
    intro c hc
    have hc' := Finset.mem_range.mp hc
    rw [ent_qpc, candA_row_lt_mnt G idx a ha, append_single_getD_mnt, List.length_map, if_pos hc',
      map_getD_idx_mnt idx _ c hc']
    rfl
  have e2 : ent_qpc (candA_mnt G idx) a idx.length = -1 := by
    rw [ent_qpc, candA_row_lt_mnt G idx a ha, append_single_getD_mnt, List.length_map,
      if_neg (lt_irrefl _), if_pos rfl]
  rw [Finset.sum_congr rfl e1, e2]
  ring

/-- ... and the last row -/
theorem rowsum_last_mnt (G : Mat α) (idx : List Nat) (y : Nat → α) :
    ∑ c ∈ Finset.range (idx.length + 1), ent_qpc (candA_mnt G idx) idx.length c * y c =
      ∑ c ∈ Finset.range idx.length, y c := by
  rw [Finset.sum_range_succ]
  have e1 : ∀ c ∈ Finset.range idx.length, ent_qpc (candA_mnt G idx) idx.length c * y c = y c := by
    intro c hc
    have hc' := Finset.mem_range.mp hc
    rw [ent_qpc, candA_row_last_mnt, append_single_getD_mnt, List.length_replicate, if_pos hc']
    simp [List.getD_eq_getElem?_getD, List.getElem?_replicate, hc']
  have e2 : ent_qpc (candA_mnt G idx) idx.length idx.length = 0 := by
    rw [ent_qpc, candA_row_last_mnt, append_single_getD_mnt, List.length_replicate,
      if_neg (lt_irrefl _), if_pos rfl]
  rw [Finset.sum_congr rfl e1, e2]
  ring

theorem candB_getD_lt_mnt (k a : Nat) (ha : a < k) : (candB_mnt k : Vec α).getD a 0 = 0 := by
  rw [candB_mnt, append_single_getD_mnt, List.length_replicate, if_pos ha]
  simp [List.getD_eq_getElem?_getD, List.getElem?_replicate, ha]

theorem candB_getD_last_mnt (k : Nat) : (candB_mnt k : Vec α).getD k 0 = 1 := by
  rw [candB_mnt, append_single_getD_mnt, List.length_replicate, if_neg (lt_irrefl _), if_pos rfl]

theorem filter_map_sum_mnt (p : Nat → Bool) (g : Nat → α) : ∀ l : List Nat,
    ((l.filter p).map g).sum = (l.map fun j => if p j = true then g j else 0).sum
  | [] => by simp
  | a :: l => by
    rw [List.map_cons, List.sum_cons, ← filter_map_sum_mnt p g l]
    cases h : p a <;> simp [h]

/-- a sum over the selected indices as a sum over all indices -/
theorem sum_idx_mnt (m : Nat) (p : Nat → Bool) (g : Nat → α) :
    ∑ c ∈ Finset.range (idxL_mnt m p).length, g ((idxL_mnt m p).getD c 0) =
      ∑ j ∈ Finset.range m, if p j = true then g j else 0 := by
  rw [sum_range_getD_qpc, idxL_mnt, filter_map_sum_mnt, sum_map_range_qpc]

/-- a vector indexed by positions in the support, as a vector indexed by `0..m-1` -/
def lift_mnt (idx : List Nat) (p : Nat → Bool) (y : Nat → α) : Nat → α :=
  fun i => if p i = true then y (idx.idxOf i) else 0

theorem lift_getD_mnt (m : Nat) (p : Nat → Bool) (y : Nat → α) (c : Nat)
    (hc : c < (idxL_mnt m p).length) :
    lift_mnt (idxL_mnt m p) p y ((idxL_mnt m p).getD c 0) = y c := by
  have hmem := getD_mem_qpc (idxL_mnt m p) 0 c hc
  have hp := ((mem_idxL_mnt m p _).mp hmem).2
  rw [lift_mnt, if_pos hp]
  congr 1
  rw [List.getD_eq_getElem?_getD, List.getElem?_eq_getElem hc, Option.getD_some]
  exact List.Nodup.idxOf_getElem (idxL_nodup_mnt m p) c hc

theorem sum_lift_mnt (m : Nat) (p : Nat → Bool) (g y : Nat → α) :
    ∑ c ∈ Finset.range (idxL_mnt m p).length, g ((idxL_mnt m p).getD c 0) * y c =
      ∑ j ∈ Finset.range m, g j * lift_mnt (idxL_mnt m p) p y j := by
  have e : ∀ c ∈ Finset.range (idxL_mnt m p).length, g ((idxL_mnt m p).getD c 0) * y c =
      (fun i => g i * lift_mnt (idxL_mnt m p) p y i) ((idxL_mnt m p).getD c 0) := by
    intro c hc
    simp only [lift_getD_mnt m p y c (Finset.mem_range.mp hc)]
  rw [Finset.sum_congr rfl e]
  refine (sum_idx_mnt m p (fun i => g i * lift_mnt (idxL_mnt m p) p y i)).trans ?_
  apply Finset.sum_congr rfl
  intro j _
  by_cases hp : p j = true
  · rw [if_pos hp]
  · rw [if_neg hp, lift_mnt, if_neg hp, mul_zero]

theorem zipIdx_find_none_mnt (l : List Nat) (i : Nat) (h : i ∉ l) :
    l.zipIdx.find? (·.1 == i) = none := by
  rw [List.find?_eq_none]
  intro x hx
  have := List.fst_mem_of_mem_zipIdx hx
  simp only [beq_iff_eq]
  intro hxi
  exact h (hxi ▸ this)

theorem ofFn_getD_mnt {m : Nat} (w : Fin m → α) (i : Fin m) : (List.ofFn w).getD i 0 = w i :=
  congrFun (toFn_ofFn m w) i

/-- the candidate of a regular support is THE solution of its KKT system -/
theorem minNormCandidate_eq_mnt (G : Mat α) (m : Nat) (hGl : G.length = m) (supp : List Bool)
    (T : Finset (Fin m)) (hT : ∀ i : Fin m, i ∈ T ↔ supp.getD i false = true) (hne : T.Nonempty)
    (hker : TrivKer_mnt (toMat m m G) T) (w : Fin m → α) (lam : α)
    (hoff : ∀ i, i ∉ T → w i = 0) (hon : ∀ i, i ∈ T → (toMat m m G *ᵥ w) i = lam)
    (hsum : ∑ i, w i = 1) : minNormCandidate G supp = some (List.ofFn w) := by
  rw [minNormCandidate_unfold_mnt, hGl]
  generalize hp : (fun i => supp.getD i false) = p
  have hpi : ∀ i, supp.getD i false = p i := fun i => by rw [← hp]
  have hmem := mem_idxL_mnt m p
  have hnd := idxL_nodup_mnt m p
  have hlift := lift_getD_mnt (α := α) m p
  have hsl := sum_lift_mnt (α := α) m p
  have hsi := sum_idx_mnt (α := α) m p
  generalize hidx : idxL_mnt m p = idx at *
  -- every element of the support is an entry of `idx`
  have hTidx : ∀ i : Fin m, i ∈ T → ∃ a, a < idx.length ∧ idx.getD a 0 = i := by
    intro i hi
    have : (i : Nat) ∈ idx := (hmem i).mpr ⟨i.2, by rw [← hpi]; exact (hT i).mp hi⟩
    obtain ⟨a, ha, hai⟩ := List.mem_iff_getElem.mp this
    exact ⟨a, ha, by rw [getD_eq_getElem_qpc _ _ _ ha]; exact hai⟩
  have hidxT : ∀ a, a < idx.length → ∃ i : Fin m, i ∈ T ∧ (i : Nat) = idx.getD a 0 := by
    intro a ha
    obtain ⟨h1, h2⟩ := (hmem _).mp (getD_mem_qpc idx 0 a ha)
    exact ⟨⟨_, h1⟩, (hT _).mpr (by rw [hpi]; exact h2), rfl⟩
  have hnotT : ∀ i : Fin m, i ∉ T → p i = false := by
    intro i hi
    have := (not_congr (hT i)).mp hi
    rw [hpi] at this
    simpa using this
  have hk : 0 < idx.length := by
    obtain ⟨i0, hi0⟩ := hne
    obtain ⟨a, ha, _⟩ := hTidx i0 hi0
    omega
  have hnotempty : idx.isEmpty = false := by
    cases hh : idx with
    | nil => rw [hh] at hk; simp at hk
    | cons _ _ => rfl
  rw [hnotempty]
  simp only [Bool.false_eq_true, if_false]
  -- position-indexed vectors as functions on `Fin m`
  have hYmul : ∀ (y : Nat → α) (i : Fin m),
      (toMat m m G *ᵥ fun j : Fin m => lift_mnt idx p y j) i =
        ∑ c ∈ Finset.range idx.length, ent_qpc G i (idx.getD c 0) * y c := by
    intro y i
    rw [hsl (fun j => ent_qpc G i j) y, Finset.sum_range]
    rfl
  have hYsum : ∀ y : Nat → α, ∑ j : Fin m, lift_mnt idx p y j =
      ∑ c ∈ Finset.range idx.length, y c := by
    intro y
    have := hsl (fun _ => 1) y
    simp only [one_mul] at this
    rw [this, Finset.sum_range]
  -- trivial kernel of the list-level KKT matrix
  have hkerL : ∀ y : Nat → α, (∀ i, i < idx.length + 1 →
      ∑ j ∈ Finset.range (idx.length + 1), ent_qpc (candA_mnt G idx) i j * y j = 0) →
      ∀ j, j < idx.length + 1 → y j = 0 := by
    intro y hy
    have hrows : ∀ a, a < idx.length →
        ∑ c ∈ Finset.range idx.length, ent_qpc G (idx.getD a 0) (idx.getD c 0) * y c =
          y idx.length := by
      intro a ha
      have := hy a (by omega)
      rw [rowsum_lt_mnt G idx y a ha] at this
      exact sub_eq_zero.mp this
    have hlast : ∑ c ∈ Finset.range idx.length, y c = 0 := by
      have := hy idx.length (by omega)
      rwa [rowsum_last_mnt] at this
    have hY0 := hker (fun j : Fin m => lift_mnt idx p y j) (y idx.length)
      (fun i hi => by
        show lift_mnt idx p y i = 0
        rw [lift_mnt, hnotT i hi]; simp)
      (fun i hi => by
        obtain ⟨a, ha, hai⟩ := hTidx i hi
        rw [hYmul y i, ← hai]
        exact hrows a ha)
      (by rw [hYsum y]; exact hlast)
    have hyc : ∀ c, c < idx.length → y c = 0 := by
      intro c hc
      obtain ⟨i, _, hi⟩ := hidxT c hc
      have := congrFun hY0 i
      simp only [Pi.zero_apply] at this
      rw [hi, hlift y c hc] at this
      exact this
    intro j hj
    by_cases hjk : j < idx.length
    · exact hyc j hjk
    · have hjk' : j = idx.length := by omega
      rw [hjk', ← hrows 0 hk]
      apply Finset.sum_eq_zero
      intro c hc
      rw [hyc c (Finset.mem_range.mp hc), mul_zero]
  obtain ⟨x, hx, hxl, hxs⟩ := solve_complete_qpc (candA_mnt G idx) (candB_mnt idx.length)
    (idx.length + 1) (candA_length_mnt G idx) (candA_rowlen_mnt G idx) (by simp [candB_mnt]) hkerL
  rw [hx]
  simp only [Option.some.injEq]
  -- the intended solution
  have hWp : ∀ j, j < m → p j = false → (List.ofFn w).getD j 0 = 0 := by
    intro j hj hpj
    have h1 : (⟨j, hj⟩ : Fin m) ∉ T := by
      intro h
      have := (hT _).mp h
      rw [hpi] at this
      simp only at this
      rw [hpj] at this
      exact absurd this (by simp)
    have := ofFn_getD_mnt w ⟨j, hj⟩
    simp only at this
    rw [this, hoff _ h1]
  have hWsum : ∀ g : Nat → α,
      ∑ c ∈ Finset.range idx.length, g (idx.getD c 0) * (List.ofFn w).getD (idx.getD c 0) 0 =
        ∑ j : Fin m, g j * w j := by
    intro g
    rw [hsi (fun j => g j * (List.ofFn w).getD j 0), Finset.sum_range]
    apply Finset.sum_congr rfl
    intro j _
    rw [← ofFn_getD_mnt w j]
    by_cases hpj : p j = true
    · rw [if_pos hpj]
    · rw [if_neg hpj, hWp j j.2 (by simpa using hpj), mul_zero]
  have hxw : ∀ j, j < idx.length + 1 →
      x.getD j 0 = if j < idx.length then (List.ofFn w).getD (idx.getD j 0) 0 else lam := by
    intro j hj
    have := hkerL (fun j => x.getD j 0 -
        if j < idx.length then (List.ofFn w).getD (idx.getD j 0) 0 else lam) (by
      intro i hi
      simp only [mul_sub]
      rw [Finset.sum_sub_distrib, hxs i hi]
      by_cases hik : i < idx.length
      · rw [rowsum_lt_mnt G idx _ i hik, candB_getD_lt_mnt _ _ hik, if_neg (lt_irrefl _)]
        have e : ∀ c ∈ Finset.range idx.length, ent_qpc G (idx.getD i 0) (idx.getD c 0) *
            (if c < idx.length then (List.ofFn w).getD (idx.getD c 0) 0 else lam) =
            ent_qpc G (idx.getD i 0) (idx.getD c 0) * (List.ofFn w).getD (idx.getD c 0) 0 := by
          intro c hc
          rw [if_pos (Finset.mem_range.mp hc)]
        rw [Finset.sum_congr rfl e, hWsum (fun j => ent_qpc G (idx.getD i 0) j)]
        obtain ⟨i', hi'T, hi'⟩ := hidxT i hik
        have := hon i' hi'T
        rw [← hi']
        have e2 : ∑ j : Fin m, ent_qpc G i' j * w j = (toMat m m G *ᵥ w) i' := rfl
        rw [e2, this]
        ring
      · have hik' : i = idx.length := by omega
        subst hik'
        rw [rowsum_last_mnt, candB_getD_last_mnt]
        have e : ∀ c ∈ Finset.range idx.length,
            (if c < idx.length then (List.ofFn w).getD (idx.getD c 0) 0 else lam) =
            1 * (List.ofFn w).getD (idx.getD c 0) 0 := by
          intro c hc
          rw [if_pos (Finset.mem_range.mp hc), one_mul]
        rw [Finset.sum_congr rfl e, hWsum (fun _ => 1)]
        simp only [one_mul]
        rw [hsum, sub_self]) j hj
    exact sub_eq_zero.mp this
  -- the scatter of the solution is `w`
  apply List.ext_getElem (by simp [scatter_mnt])
  intro i h1 h2
  have hi : i < m := by simpa [scatter_mnt] using h1
  simp only [scatter_mnt, List.getElem_map, List.getElem_range]
  have hwi : (List.ofFn w)[i] = (List.ofFn w).getD i 0 := (getD_eq_getElem_qpc _ _ _ h2).symm
  rw [hwi]
  by_cases hpi' : p i = true
  · obtain ⟨a, ha, rfl⟩ := List.mem_iff_getElem.mp ((hmem i).mpr ⟨hi, hpi'⟩)
    rw [zipIdx_find_qpc idx 0 a ha hnd]
    simp only [zero_add]
    rw [hxw a (by omega), if_pos ha, getD_eq_getElem_qpc _ _ _ ha]
  · have hnm : i ∉ idx := fun h => hpi' ((hmem i).mp h).2
    rw [zipIdx_find_none_mnt idx i hnm]
    simp only
    rw [hWp i hi (by simpa using hpi')]

end listlevel

/-! ### list level: the check, existence, completeness -/
section complete
variable {α : Type} [Field α] [LinearOrder α] [IsStrictOrderedRing α]

/-- a point of the simplex that satisfies the variational inequality passes the Boolean check
    (converse of `minNormCheck_fn`) -/
theorem minNormCheck_of_cert_mnt (G : Mat α) (m : Nat) (hGl : G.length = m) (a : Fin m → α)
    (ha : InFace_mnt Finset.univ a)
    (hcert : ∀ i, a ⬝ᵥ toMat m m G *ᵥ a ≤ (toMat m m G *ᵥ a) i) :
    minNormCheck G (List.ofFn a) = true := by
  have hl : (List.ofFn a).length = m := List.length_ofFn
  simp only [minNormCheck, Bool.and_eq_true, decide_eq_true_eq, List.all_eq_true, beq_iff_eq]
  refine ⟨⟨⟨by rw [hl, hGl], ?_⟩, ?_⟩, ?_⟩
  · intro x hx
    obtain ⟨i, rfl⟩ := (List.mem_ofFn).mp hx
    exact ha.1 i
  · rw [list_sum_eq_sum m _ hl.le, ← ha.2.2]
    apply Finset.sum_congr rfl
    intro i _
    exact ofFn_getD_mnt a i
  · intro x hx
    obtain ⟨i, hi, rfl⟩ := List.mem_iff_getElem.mp hx
    have hi' : i < m := by rw [matVec_length, hGl] at hi; exact hi
    have h := hcert ⟨i, hi'⟩
    rw [← toFn_ofFn m a, ← toFn_matVec m m G _ hl.le, ← dot_eq_left m _ _ hl.le, toFn_apply] at h
    have h' : dot (List.ofFn a) (matVec G (List.ofFn a)) ≤ (matVec G (List.ofFn a)).getD i 0 := h
    rwa [getD_eq_getElem_qpc _ _ _ hi] at h'

/-- the Gramian: a minimiser on the simplex with regular support, on `Fin m → α` -/
theorem gram_good_mnt (J : Mat α) (m n : Nat) (hJ : MatWF J m n) (hm : 0 < m) :
    ∃ a : Fin m → α, Good_mnt (toMat m m (gram J)) Finset.univ a := by
  apply face_good_mnt _ (toMat_symm m _ (gram_symmSquare J m n hJ))
    (psd_fn m _ (gram_psd J m n hJ))
  · intro f hf
    rw [toMat_gram J m n hJ] at hf ⊢
    exact gram_null_mnt _ f hf
  · exact ⟨⟨0, hm⟩, Finset.mem_univ _⟩

/-- EXISTENCE of the minimum-norm point of the hull of the rows, over any linearly ordered field -/
theorem minnorm_exists_mnt (J : Mat α) (m n : Nat) (hJ : MatWF J m n) (hm : 0 < m) :
    ∃ a, InSimplex a m ∧ ∀ b, InSimplex b m → qf (gram J) a ≤ qf (gram J) b := by
  obtain ⟨a, g1, g2, _⟩ := gram_good_mnt J m n hJ hm
  have hl : (List.ofFn a).length = m := List.length_ofFn
  refine ⟨List.ofFn a, inSimplex_of_fn hl ?_ ?_, fun b hb => ?_⟩
  · rw [toFn_ofFn]; exact g1.1
  · rw [toFn_ofFn]; exact g1.2.2
  · obtain ⟨b1, b2, b3⟩ := inSimplex_fn hb
    rw [qf_eq m _ _ hl.le, qf_eq m _ b b1.le, toFn_ofFn]
    exact g2 _ ⟨b2, fun i hi => absurd (Finset.mem_univ i) hi, b3⟩

/-- COMPLETENESS of the certified min-norm search on the Gramian of any matrix with at least one row:
    it returns, and what it returns carries the certificate and its value -/
theorem minNorm_complete_mnt (J : Mat α) (m n : Nat) (hJ : MatWF J m n) (hm : 0 < m) :
    ∃ a v, minNorm (gram J) = some (a, v) ∧ minNormCheck (gram J) a = true ∧
      v = qf (gram J) a := by
  obtain ⟨a, g1, g2, g3⟩ := gram_good_mnt J m n hJ hm
  have hGl : (gram J).length = m := by rw [gram_length, hJ.1]
  have hA := toMat_symm m _ (gram_symmSquare J m n hJ)
  have hcert := cert_of_min_mnt _ hA a g1 g2
  have hcheck := minNormCheck_of_cert_mnt (gram J) m hGl a g1 hcert
  -- the Boolean mask of the support of `a`
  have hmask : ∀ i : Fin m, (List.ofFn fun i : Fin m => decide (a i ≠ 0)).getD i false =
      decide (a i ≠ 0) := by
    intro i
    simp [List.getD_eq_getElem?_getD]
  have hT : ∀ i : Fin m, i ∈ supp_mnt a ↔
      (List.ofFn fun i : Fin m => decide (a i ≠ 0)).getD i false = true := by
    intro i
    rw [hmask i, mem_supp_mnt, decide_eq_true_eq]
  have hoff : ∀ i, i ∉ supp_mnt a → a i = 0 := by
    intro i hi
    rw [mem_supp_mnt, not_not] at hi
    exact hi
  have hne : (supp_mnt a).Nonempty :=
    inFace_nonempty_mnt (T := supp_mnt a) ⟨g1.1, hoff, g1.2.2⟩
  have hcand := minNormCandidate_eq_mnt (gram J) m hGl _ (supp_mnt a) hT hne g3 a
    (a ⬝ᵥ toMat m m (gram J) *ᵥ a) hoff
    (fun i hi => cert_eq_on_supp_mnt _ a g1 hcert i ((mem_supp_mnt a i).mp hi)) g1.2.2
  have hsome : (minNorm (gram J)).isSome = true := by
    unfold minNorm
    rw [List.findSome?_isSome_iff]
    refine ⟨_, mem_subsetsBool_qpc (gram J).length
      (List.ofFn fun i : Fin m => decide (a i ≠ 0)) (by rw [List.length_ofFn, hGl]), ?_⟩
    rw [hcand]
    simp [hcheck]
  obtain ⟨⟨a', v⟩, h⟩ := Option.isSome_iff_exists.mp hsome
  refine ⟨a', v, h, ?_⟩
  unfold minNorm at h
  obtain ⟨s, _, hs⟩ := List.exists_of_findSome?_eq_some h
  cases hc : minNormCandidate (gram J) s with
  | none => simp [hc] at hs
  | some a'' =>
    simp only [hc] at hs
    by_cases hchk : minNormCheck (gram J) a'' = true
    · rw [if_pos hchk] at hs
      simp only [Option.some.injEq, Prod.mk.injEq] at hs
      obtain ⟨rfl, rfl⟩ := hs
      exact ⟨hchk, rfl⟩
    · rw [if_neg hchk] at hs
      exact absurd hs (by simp)

end complete

end Tjd.Agg
