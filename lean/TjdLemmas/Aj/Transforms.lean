/- per-transform lemmas: select, stack, unite/subMatrices, aggregate, diagonalize -/
import TjdLemmas.Aj.Lists
import TjdLemmas.Aj.VecAlg
import TjdLemmas.Aj.EngineLemmas
namespace Tjd.Autojac
open Tjd

section
variable {β : Type}

theorem find?_of_mem_nodup (d : List (Key × β)) (k : Key) (v : β)
    (hd : (d.map (·.1)).Nodup) (h : (k, v) ∈ d) : d.find? (·.1 == k) = some (k, v) := by
  induction d with
  | nil => simp at h
  | cons a d ih =>
    rw [List.map_cons, List.nodup_cons] at hd
    rw [List.find?_cons]
    rcases List.mem_cons.mp h with h | h
    · subst h; simp
    · have hne : a.1 ≠ k := by
        intro heq
        apply hd.1
        rw [heq]
        exact List.mem_map.mpr ⟨(k, v), h, rfl⟩
      have : (a.1 == k) = false := by simpa using hne
      simp only [this]
      exact ih hd.2 h

theorem mem_selectT (keys : List Key) (d : List (Key × β)) (k : Key) (v : β)
    (hd : (d.map (·.1)).Nodup) :
    (k, v) ∈ selectT keys d ↔ k ∈ keys ∧ (k, v) ∈ d := by
  unfold selectT
  rw [List.mem_filterMap]
  constructor
  · rintro ⟨k', hk', hf⟩
    have hm := List.mem_of_find?_eq_some hf
    have hp := List.find?_some hf
    simp only [beq_iff_eq] at hp
    subst hp
    exact ⟨hk', hm⟩
  · rintro ⟨hk, hm⟩
    exact ⟨k, hk, find?_of_mem_nodup d k v hd hm⟩

theorem mem_unionKeys_inner (d : List (Key × β)) (acc : List Key) (k : Key) :
    k ∈ d.foldl (fun acc (kv : Key × β) => if acc.contains kv.1 then acc else acc ++ [kv.1]) acc ↔
      k ∈ acc ∨ ∃ v, (k, v) ∈ d := by
  induction d generalizing acc with
  | nil => simp
  | cons a d ih =>
    rw [List.foldl_cons, ih]
    by_cases hc : acc.contains a.1 = true
    · simp only [hc, if_true]
      constructor
      · rintro (h | ⟨v, hv⟩)
        · exact Or.inl h
        · exact Or.inr ⟨v, by simp [hv]⟩
      · rintro (h | ⟨v, hv⟩)
        · exact Or.inl h
        · rcases List.mem_cons.mp hv with h | h
          · left
            have : k = a.1 := by rw [← h]
            rw [this]; simpa using hc
          · exact Or.inr ⟨v, h⟩
    · simp only [hc]
      constructor
      · rintro (h | ⟨v, hv⟩)
        · simp only [Bool.false_eq_true, if_false, List.mem_append, List.mem_singleton] at h
          rcases h with h | h
          · exact Or.inl h
          · exact Or.inr ⟨a.2, by subst h; simp⟩
        · exact Or.inr ⟨v, by simp [hv]⟩
      · rintro (h | ⟨v, hv⟩)
        · left; simp [h]
        · rcases List.mem_cons.mp hv with h | h
          · left
            have : k = a.1 := by rw [← h]
            simp [this]
          · exact Or.inr ⟨v, h⟩

theorem mem_unionKeys_aux (ds : List (List (Key × β))) (acc : List Key) (k : Key) :
    k ∈ ds.foldl (fun acc d => d.foldl
        (fun acc (kv : Key × β) => if acc.contains kv.1 then acc else acc ++ [kv.1]) acc) acc ↔
      k ∈ acc ∨ ∃ d ∈ ds, ∃ v, (k, v) ∈ d := by
  induction ds generalizing acc with
  | nil => simp
  | cons d ds ih =>
    rw [List.foldl_cons, ih, mem_unionKeys_inner]
    constructor
    · rintro ((h | ⟨v, hv⟩) | ⟨d', hd', hv⟩)
      · exact Or.inl h
      · exact Or.inr ⟨d, by simp, v, hv⟩
      · exact Or.inr ⟨d', by simp [hd'], hv⟩
    · rintro (h | ⟨d', hd', v, hv⟩)
      · exact Or.inl (Or.inl h)
      · rcases List.mem_cons.mp hd' with h | h
        · subst h; exact Or.inl (Or.inr ⟨v, hv⟩)
        · exact Or.inr ⟨d', h, v, hv⟩

theorem mem_unionKeys (ds : List (List (Key × β))) (k : Key) :
    k ∈ unionKeys ds ↔ ∃ d ∈ ds, ∃ v, (k, v) ∈ d := by
  unfold unionKeys
  rw [mem_unionKeys_aux]
  simp

/-! ### unite / subMatrices -/

theorem unite_length (m : Nat) (mats : List (List (List β))) : (unite m mats).length = m := by
  simp [unite]

theorem unite_getD (m : Nat) (mats : List (List (List β))) (r : Nat) (hr : r < m) :
    (unite m mats).getD r [] = mats.flatMap fun M => M.getD r [] := by
  simp [unite, List.getD_eq_getElem?_getD, hr]

theorem subMatrices_length (lengths : List Nat) (M : List (List β)) :
    (subMatrices lengths M).length = lengths.length := by
  simp [subMatrices]

theorem unite_subMatrices_eq (lengths : List Nat) (M : List (List β))
    (hrow : ∀ row ∈ M, row.length = lengths.sum) :
    unite M.length (subMatrices lengths M) = M := by
  apply List.ext_getElem
  · simp [unite]
  · intro r h1 h2
    simp only [unite, subMatrices, List.getElem_map, List.getElem_range, List.flatMap_map]
    have : ∀ idx, (List.map (fun row => (splitCols lengths row).getD idx []) M).getD r [] =
        (splitCols lengths M[r]).getD idx [] := by
      intro idx
      simp [List.getD_eq_getElem?_getD, h2]
    simp only [this]
    rw [← splitCols_length lengths M[r], range_flatMap_getD, splitCols_flatten,
      ← hrow M[r] (List.getElem_mem _), List.take_length]

end
section
variable {α : Type}

theorem aggregateT_ok (E : Engine α) (A : Mat α → Except Err (Vec α)) (keyOrder : List Key)
    (j : JDict α) (hne : keyOrder ≠ []) (v : Vec α)
    (hA : A (unite ((lookupD j (keyOrder.headD 0) []).length)
              (keyOrder.map fun k => lookupD j k [])) = .ok v)
    (hlen : v.length = (keyOrder.map E.numel).sum) :
    aggregateT E A keyOrder j = .ok (List.zip keyOrder (splitCols (keyOrder.map E.numel) v)) := by
  cases keyOrder with
  | nil => exact absurd rfl hne
  | cons k ks =>
    simp only [List.headD_cons, List.map_cons] at hA hlen
    unfold aggregateT
    simp only [List.isEmpty_cons, Bool.false_eq_true, if_false, List.map_cons, List.headD_cons]
    rw [hA]
    simp [bind, Except.bind, pure, Except.pure, hlen]

theorem aggregateT_error (E : Engine α) (A : Mat α → Except Err (Vec α)) (keyOrder : List Key)
    (j : JDict α) (hne : keyOrder ≠ []) (e : Err)
    (hA : A (unite ((lookupD j (keyOrder.headD 0) []).length)
              (keyOrder.map fun k => lookupD j k [])) = .error e) :
    aggregateT E A keyOrder j = .error e := by
  cases keyOrder with
  | nil => exact absurd rfl hne
  | cons k ks =>
    simp only [List.headD_cons, List.map_cons] at hA
    unfold aggregateT
    simp only [List.isEmpty_cons, Bool.false_eq_true, if_false, List.map_cons, List.headD_cons]
    rw [hA]
    simp [bind, Except.bind]

theorem aggregateT_wrong_length (E : Engine α) (A : Mat α → Except Err (Vec α)) (keyOrder : List Key)
    (j : JDict α) (hne : keyOrder ≠ []) (v : Vec α)
    (hA : A (unite ((lookupD j (keyOrder.headD 0) []).length)
              (keyOrder.map fun k => lookupD j k [])) = .ok v)
    (hlen : v.length ≠ (keyOrder.map E.numel).sum) :
    aggregateT E A keyOrder j = .error Err.value := by
  cases keyOrder with
  | nil => exact absurd rfl hne
  | cons k ks =>
    simp only [List.headD_cons, List.map_cons, List.sum_cons] at hA hlen
    unfold aggregateT
    simp only [List.isEmpty_cons, Bool.false_eq_true, if_false, List.map_cons, List.headD_cons]
    rw [hA]
    simp [bind, Except.bind, hlen, throw, throwThe, MonadExceptOf.throw]

theorem zip_splitCols_keys (numel : Key → Nat) (ks : List Key) (v : Vec α) :
    (List.zip ks (splitCols (ks.map numel) v)).map (·.1) = ks := by
  rw [List.map_fst_zip]
  simp [splitCols_length]

theorem stackT_keys [Zero α] (E : Engine α) (ds : List (GDict α)) : (stackT E ds).map (·.1) = unionKeys ds := by
  simp [stackT, Function.comp_def]

end

section
variable {γ : Type}

theorem range_map_drop_take (f : Nat → γ) (L b n : Nat) (h : b + n ≤ L) :
    (((List.range L).map f).drop b).take n = (List.range n).map fun c => f (b + c) := by
  apply List.ext_getElem
  · simp; omega
  · intro i h1 h2
    simp

theorem lookupD_zip_offsets (numel : Key → Nat) (F : Nat → Nat → γ) (ks : List Key) (b0 : Nat)
    (k : Key) (d : γ) (hk : k ∈ ks) :
    lookupD ((List.zip ks (offsets numel ks b0)).map fun p => (p.1, F p.2.1 p.2.2)) k d =
      F (b0 + offsetOf numel ks k) (b0 + offsetOf numel ks k + numel k) := by
  induction ks generalizing b0 with
  | nil => simp at hk
  | cons a ks ih =>
    simp only [offsets, List.zip_cons_cons, List.map_cons, lookupD_cons, offsetOf]
    by_cases h : a = k
    · simp [h]
    · have hk' : k ∈ ks := by simpa [Ne.symm h] using hk
      simp only [h, if_false]
      rw [ih _ hk']
      simp [Nat.add_assoc]
end

section
variable {α : Type} [Zero α]

theorem diagonalizeT_eq (E : Engine α) (ks : List Key) (g : GDict α) :
    diagonalizeT E ks g =
      (List.zip ks (offsets E.numel ks 0)).map fun p =>
        (p.1, (diagMat (ks.flatMap fun k => lookupD g k [])).map fun row =>
          (row.drop p.2.1).take (p.2.2 - p.2.1)) := rfl

theorem lookupD_diagonalizeT (E : Engine α) (ks : List Key) (g : GDict α) (k : Key) (hk : k ∈ ks) :
    lookupD (diagonalizeT E ks g) k [] =
      (diagMat (ks.flatMap fun k => lookupD g k [])).map fun row =>
        (row.drop (offsetOf E.numel ks k)).take (E.numel k) := by
  rw [diagonalizeT_eq]
  rw [lookupD_zip_offsets E.numel (fun b e => (diagMat (ks.flatMap fun k => lookupD g k [])).map
    fun row => (row.drop b).take (e - b)) ks 0 k [] hk]
  simp

theorem diagMat_length (flat : Vec α) : (diagMat flat).length = flat.length := by simp [diagMat]

theorem diagMat_getD (flat : Vec α) (r : Nat) (hr : r < flat.length) :
    (diagMat flat).getD r [] =
      (List.range flat.length).map fun c => if r = c then flat.getD r 0 else 0 := by
  simp [diagMat, List.getD_eq_getElem?_getD, hr]

end
end Tjd.Autojac
