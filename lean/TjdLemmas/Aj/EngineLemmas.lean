/- the engine: blocks, vjp1 as a sum of vector–matrix products -/
import TjdLemmas.Aj.Lists
import TjdLemmas.Aj.VecAlg
namespace Tjd.Autojac
open Tjd

section
variable {α : Type} [Semiring α]

theorem block_of_none (E : Engine α) (o i : Key) (h : E.jac o i = none) :
    E.block o i = List.replicate (E.numel o) (zeros (E.numel i)) := by
  simp [Engine.block, h]

theorem block_of_some (E : Engine α) (o i : Key) (M : Mat α) (h : E.jac o i = some M) :
    E.block o i = M := by
  simp [Engine.block, h]

theorem block_length (E : Engine α) (hE : E.WF) (o i : Key) : (E.block o i).length = E.numel o := by
  cases h : E.jac o i with
  | none => simp [block_of_none E o i h]
  | some M => rw [block_of_some E o i M h]; exact (hE o i M h).1

theorem block_rows (E : Engine α) (hE : E.WF) (o i : Key) :
    ∀ row ∈ E.block o i, row.length = E.numel i := by
  cases h : E.jac o i with
  | none =>
    rw [block_of_none E o i h]
    intro row hrow
    rw [(List.mem_replicate.mp hrow).2]; simp
  | some M => rw [block_of_some E o i M h]; exact (hE o i M h).2

theorem block_getD_length (E : Engine α) (hE : E.WF) (o i : Key) (r : Nat) (hr : r < E.numel o) :
    ((E.block o i).getD r []).length = E.numel i := by
  have hl := block_length E hE o i
  rw [List.getD_eq_getElem?_getD, List.getElem?_eq_getElem (by omega)]
  exact block_rows E hE o i _ (List.getElem_mem _)

theorem vecMat_length (E : Engine α) (hE : E.WF) (o i : Key) (c : Vec α) :
    (vecMat (E.numel i) c (E.block o i)).length = E.numel i :=
  combine_length _ _ _ (block_rows E hE o i)

theorem vecMat_block_none (E : Engine α) (o i : Key) (c : Vec α) (h : E.jac o i = none) :
    vecMat (E.numel i) c (E.block o i) = zeros (E.numel i) := by
  unfold vecMat
  apply combine_zero_rows
  rw [block_of_none E o i h]
  intro row hrow
  exact (List.mem_replicate.mp hrow).2

/-- the fold performed by `Engine.vjp1`, for an arbitrary starting accumulator -/
theorem vjp1_fold_spec (E : Engine α) (hE : E.WF) (i : Key) (l : List (Key × Vec α))
    (acc : Option (Vec α)) (hacc : ∀ a, acc = some a → a.length = E.numel i) :
    materialize E i (l.foldl
      (fun acc (oc : Key × Vec α) =>
        match E.jac oc.1 i with
        | none => acc
        | some M =>
          let t := vecMat (E.numel i) oc.2 M
          match acc with
          | none => some t
          | some a => some (vadd a t)) acc) =
    List.foldl vadd (materialize E i acc)
      (l.map fun oc => vecMat (E.numel i) oc.2 (E.block oc.1 i)) := by
  induction l generalizing acc with
  | nil => rfl
  | cons oc l ih =>
    have hmat : (materialize E i acc).length = E.numel i := by
      cases acc with
      | none => simp [materialize]
      | some a => simpa [materialize] using hacc a rfl
    rw [List.foldl_cons, List.map_cons, List.foldl_cons]
    cases hj : E.jac oc.1 i with
    | none =>
      simp only []
      rw [ih acc hacc, vecMat_block_none E oc.1 i oc.2 hj, vadd_zeros _ _ (Nat.le_of_eq hmat)]
    | some M =>
      have hb := block_of_some E oc.1 i M hj
      have ht : (vecMat (E.numel i) oc.2 M).length = E.numel i := by
        rw [← hb]; exact vecMat_length E hE oc.1 i oc.2
      simp only []
      cases acc with
      | none =>
        simp only []
        rw [ih _ (by intro a ha; cases ha; exact ht), hb]
        simp only [materialize]
        rw [zeros_vadd _ _ (Nat.le_of_eq ht)]
      | some a =>
        simp only []
        rw [ih _ (by intro a' ha; cases ha; simp [ht, hacc a rfl]), hb]
        simp only [materialize]

theorem vjp1_spec (E : Engine α) (hE : E.WF) (outs : List Key) (cots : List (Vec α)) (i : Key) :
    materialize E i (E.vjp1 outs cots i) =
      vsum (E.numel i)
        ((List.zip outs cots).map fun oc => vecMat (E.numel i) oc.2 (E.block oc.1 i)) := by
  exact vjp1_fold_spec E hE i (List.zip outs cots) none (by intro a ha; cases ha)

theorem materialize_vjp1_length (E : Engine α) (hE : E.WF) (outs : List Key) (cots : List (Vec α))
    (i : Key) : (materialize E i (E.vjp1 outs cots i)).length = E.numel i := by
  rw [vjp1_spec E hE]
  apply vsum_length
  intro x hx
  rw [List.mem_map] at hx
  obtain ⟨oc, _, rfl⟩ := hx
  exact vecMat_length E hE _ _ _

theorem vjp1_unreachable (E : Engine α) (i : Key) (l : List (Key × Vec α))
    (hk : ∀ oc ∈ l, E.jac oc.1 i = none) :
    l.foldl
      (fun acc (oc : Key × Vec α) =>
        match E.jac oc.1 i with
        | none => acc
        | some M =>
          let t := vecMat (E.numel i) oc.2 M
          match acc with
          | none => some t
          | some a => some (vadd a t)) (none : Option (Vec α)) = none := by
  induction l with
  | nil => rfl
  | cons oc l ih =>
    rw [List.foldl_cons]
    have := hk oc (by simp)
    simp only [this]
    exact ih (fun oc' h' => hk oc' (by simp [h']))

end
end Tjd.Autojac
