/- the chunk ranges of `Jac._differentiate` tile `[0, m)` in order (private copy for C01/C15) -/
import TjdLemmas.Aj.Lists
namespace Tjd.Autojac
open Tjd

theorem full_chunks_flatMap (k q : Nat) :
    (List.range q).flatMap (fun i => (List.range ((i + 1) * k - i * k)).map (· + i * k)) =
      List.range (q * k) := by
  induction q with
  | zero => simp
  | succ q ih =>
    rw [List.range_succ, List.flatMap_append, ih, Nat.succ_mul, List.range_add]
    simp only [List.flatMap_cons, List.flatMap_nil, List.append_nil]
    congr 1
    have : (q + 1) * k - q * k = k := by rw [Nat.succ_mul]; omega
    rw [this]
    apply List.map_congr_left
    intro a _
    omega

theorem chunkRanges_tile (m : Nat) (c : Option Nat) (hm : 0 < m) (hc : ∀ k, c = some k → 0 < k) :
    (chunkRanges m c).flatMap (fun se => (List.range (se.2 - se.1)).map (· + se.1)) =
      List.range m := by
  unfold chunkRanges
  have hk : 0 < c.getD m := by
    cases c with
    | none => simpa using hm
    | some k => simpa using hc k rfl
  generalize c.getD m = k at hk
  simp only []
  have hn : 1 ≤ (m + k - 1) / k := by
    rw [Nat.le_div_iff_mul_le hk]; omega
  obtain ⟨n', hn'⟩ : ∃ n', (m + k - 1) / k = n' + 1 := ⟨(m + k - 1) / k - 1, by omega⟩
  have hle : n' * k ≤ m := by
    have := Nat.div_mul_le_self (m + k - 1) k
    rw [hn', Nat.succ_mul] at this
    omega
  rw [hn']
  simp only [Nat.add_sub_cancel, List.flatMap_append, List.flatMap_map, List.flatMap_cons,
    List.flatMap_nil, List.append_nil]
  rw [full_chunks_flatMap k n']
  have : m = n' * k + (m - n' * k) := by omega
  conv => rhs; rw [this, List.range_add]
  congr 1
  apply List.map_congr_left
  intro a _
  omega

end Tjd.Autojac
