/- the `backward` pipeline: Init/Diagonalize cotangents are one-hot rows, Jac yields `fullJac`,
   Accumulate is a fold of `Grads.set` -/
import TjdLemmas.Aj.Jac
namespace Tjd.Autojac
open Tjd

section
variable {α : Type}

theorem callOk_of (E : Engine α) (outs ins : List Key)
    (ho : ∀ t ∈ outs, E.requiresGrad t = true) (hi : ∀ i ∈ ins, E.requiresGrad i = true) :
    E.callOk outs ins = true := by
  simp only [Engine.callOk, Bool.and_eq_true, List.all_eq_true]
  exact ⟨hi, ho⟩

/-- the matrix `Aggregate` hands to the aggregator after `Jac` -/
theorem unite_after_jac (numel : Key → Nat) (ins : List Key) (M : Mat α) (hnd : ins.Nodup)
    (hne : ins ≠ []) (hrow : ∀ row ∈ M, row.length = (ins.map numel).sum) :
    unite ((lookupD (List.zip ins (subMatrices (ins.map numel) M)) (ins.headD 0) []).length)
      (ins.map fun k => lookupD (List.zip ins (subMatrices (ins.map numel) M)) k []) = M := by
  have hhead : ins.headD 0 ∈ ins := by
    cases ins with
    | nil => exact absurd rfl hne
    | cons a t => simp
  rw [lookupD_zip_subMatrices numel ins M _ hhead, List.length_map,
    map_lookupD_zip ins _ [] hnd (by simp [subMatrices_length])]
  exact unite_subMatrices_eq _ M hrow

end

section
variable {α : Type} [Semiring α]

/-! ### one-hot cotangent rows -/

/-- the vector of length `n` with a one at position `r - b` (if that is in range) -/
def hot (n b r : Nat) : Vec α := (List.range n).map fun c => if r = b + c then 1 else 0

/-- one `hot` per output, at consecutive offsets -/
def hots (numel : Key → Nat) : List Key → Nat → Nat → List (Vec α)
  | [], _, _ => []
  | o :: outs, b, r => hot (numel o) b r :: hots numel outs (b + numel o) r

theorem hot_zero (b r : Nat) : (hot 0 b r : Vec α) = [] := rfl

theorem hot_succ (n b r : Nat) :
    (hot (n + 1) b r : Vec α) = (if r = b then 1 else 0) :: hot n (b + 1) r := by
  unfold hot
  rw [List.range_succ_eq_map, List.map_cons, List.map_map]
  congr 1
  apply List.map_congr_left
  intro c _
  simp only [Function.comp, Nat.succ_eq_add_one]
  have : b + (c + 1) = b + 1 + c := by omega
  rw [this]

theorem combine_hot (n : Nat) (M : Mat α) (b r : Nat) (hM : ∀ row ∈ M, row.length = n) :
    combine n M (hot M.length b r) =
      if b ≤ r ∧ r < b + M.length then M.getD (r - b) [] else zeros n := by
  induction M generalizing b with
  | nil =>
    have : ¬ (b ≤ r ∧ r < b + ([] : Mat α).length) := by simp only [List.length_nil]; omega
    rw [if_neg this, combine_nil_left]
  | cons row M ih =>
    have hr : row.length = n := hM row (by simp)
    have hM' : ∀ row ∈ M, row.length = n := fun x hx => hM x (by simp [hx])
    rw [List.length_cons, hot_succ, combine_cons, ih (b + 1) hM']
    by_cases h1 : r = b
    · subst h1
      have c1 : ¬ (r + 1 ≤ r ∧ r < r + 1 + M.length) := by omega
      have c2 : r ≤ r ∧ r < r + (M.length + 1) := by omega
      rw [if_neg c1, if_pos c2, if_pos rfl, one_smul_vec, vadd_zeros _ _ (Nat.le_of_eq hr)]
      simp
    · rw [if_neg h1, zero_smul_vec, hr]
      by_cases h2 : b + 1 ≤ r ∧ r < b + 1 + M.length
      · have c2 : b ≤ r ∧ r < b + (M.length + 1) := by omega
        rw [if_pos h2, if_pos c2]
        have : r - b = (r - (b + 1)) + 1 := by omega
        rw [this, List.getD_cons_succ]
        apply zeros_vadd
        rw [List.getD_eq_getElem?_getD, List.getElem?_eq_getElem (by omega), Option.getD_some]
        exact Nat.le_of_eq (hM' _ (List.getElem_mem _))
      · have c2 : ¬ (b ≤ r ∧ r < b + (M.length + 1)) := by omega
        rw [if_neg h2, if_neg c2, vadd_zeros _ _ (by simp)]

/-! ### the row of the Jacobian of one input, located by walking through the outputs -/

/-- row `r` (global row index over the concatenated outputs) of the derivative w.r.t. input `i` -/
def locRow (E : Engine α) : List Key → Key → Nat → Vec α
  | [], i, _ => zeros (E.numel i)
  | o :: outs, i, r =>
    if r < E.numel o then (E.block o i).getD r [] else locRow E outs i (r - E.numel o)

theorem locRow_length (E : Engine α) (hE : E.WF) (outs : List Key) (i : Key) (r : Nat) :
    (locRow E outs i r).length = E.numel i := by
  induction outs generalizing r with
  | nil => simp [locRow]
  | cons o outs ih =>
    unfold locRow
    by_cases h : r < E.numel o
    · rw [if_pos h]; exact block_getD_length E hE o i r h
    · rw [if_neg h]; exact ih _

theorem vsum_hots (E : Engine α) (hE : E.WF) (outs : List Key) (i : Key) (b r : Nat) :
    vsum (E.numel i) ((List.zip outs (hots E.numel outs b r)).map
        fun oc => vecMat (E.numel i) oc.2 (E.block oc.1 i)) =
      if b ≤ r then locRow E outs i (r - b) else zeros (E.numel i) := by
  induction outs generalizing b with
  | nil => simp [hots, vsum_nil, locRow]
  | cons o outs ih =>
    simp only [hots, List.zip_cons_cons, List.map_cons]
    rw [vsum_cons, ih (b + E.numel o)]
    have hX : vecMat (E.numel i) (hot (E.numel o) b r) (E.block o i) =
        if b ≤ r ∧ r < b + E.numel o then (E.block o i).getD (r - b) [] else zeros (E.numel i) := by
      have := combine_hot (E.numel i) (E.block o i) b r (block_rows E hE o i)
      rw [block_length E hE o i] at this
      exact this
    rw [hX]
    by_cases h1 : b ≤ r
    · rw [if_pos h1]
      by_cases h2 : r < b + E.numel o
      · have c1 : ¬ (b + E.numel o ≤ r) := by omega
        have c2 : r - b < E.numel o := by omega
        rw [if_pos ⟨h1, h2⟩, if_neg c1]
        unfold locRow
        rw [if_pos c2]
        exact vadd_zeros _ _ (Nat.le_of_eq (block_getD_length E hE o i _ c2))
      · have c1 : b + E.numel o ≤ r := by omega
        have c2 : ¬ (r - b < E.numel o) := by omega
        have c3 : ¬ (b ≤ r ∧ r < b + E.numel o) := by omega
        rw [if_neg c3, if_pos c1]
        conv => rhs; unfold locRow
        rw [if_neg c2]
        have : r - (b + E.numel o) = r - b - E.numel o := by omega
        rw [this]
        exact zeros_vadd _ _ (Nat.le_of_eq (locRow_length E hE outs i _))
    · have c1 : ¬ (b + E.numel o ≤ r) := by omega
      have c3 : ¬ (b ≤ r ∧ r < b + E.numel o) := by omega
      rw [if_neg c3, if_neg c1, if_neg h1]
      exact vadd_zeros _ _ (by simp)

theorem fullJac_eq_locRow (E : Engine α) (outs ins : List Key) :
    fullJac E outs ins =
      (List.range ((outs.map E.numel).sum)).map fun r => ins.flatMap fun i => locRow E outs i r := by
  induction outs with
  | nil => simp [fullJac]
  | cons o outs ih =>
    have : fullJac E (o :: outs) ins = fullJacRows E ins o ++ fullJac E outs ins := by
      simp [fullJac]
    rw [this, ih, List.map_cons, List.sum_cons, List.range_add, List.map_append]
    congr 1
    · unfold fullJacRows
      apply List.map_congr_left
      intro r hr
      have hr' : r < E.numel o := List.mem_range.mp hr
      apply flatMap_congr'
      intro i _
      simp [locRow, hr']
    · rw [List.map_map]
      apply List.map_congr_left
      intro r _
      apply flatMap_congr'
      intro i _
      have c : ¬ (E.numel o + r < E.numel o) := by omega
      simp only [locRow, if_neg c, Nat.add_sub_cancel_left]

theorem fullJac_length (E : Engine α) (outs ins : List Key) :
    (fullJac E outs ins).length = (outs.map E.numel).sum := by
  rw [fullJac_eq_locRow]; simp

theorem fullJac_row_length (E : Engine α) (hE : E.WF) (outs ins : List Key) :
    ∀ row ∈ fullJac E outs ins, row.length = (ins.map E.numel).sum := by
  rw [fullJac_eq_locRow]
  intro row hrow
  obtain ⟨r, _, rfl⟩ := List.mem_map.mp hrow
  exact length_flatMap_eq E.numel ins _ (fun i _ => locRow_length E hE outs i r)


/-! ### Init ∘ Diagonalize -/

theorem diagonalizeT_row (E : Engine α) (ks : List Key) (g : GDict α)
    (hlen : ∀ k ∈ ks, (lookupD g k []).length = E.numel k) (k : Key) (hk : k ∈ ks) (r : Nat)
    (hr : r < (ks.map E.numel).sum) :
    (lookupD (diagonalizeT E ks g) k []).getD r [] =
      (List.range (E.numel k)).map fun c =>
        if r = offsetOf E.numel ks k + c then (ks.flatMap fun k => lookupD g k []).getD r 0 else 0 := by
  have hflat : (ks.flatMap fun k => lookupD g k []).length = (ks.map E.numel).sum :=
    length_flatMap_eq E.numel ks _ hlen
  have hoff := offsetOf_add_le E.numel ks k hk
  have hr' : r < (diagMat (ks.flatMap fun k => lookupD g k [])).length := by
    rw [diagMat_length, hflat]; exact hr
  rw [lookupD_diagonalizeT E ks g k hk, getD_map_of_lt _ _ r [] [] hr',
    diagMat_getD _ r (by rw [hflat]; exact hr), hflat]
  exact range_map_drop_take _ _ _ _ hoff

theorem diagonalizeT_lookup_length (E : Engine α) (ks : List Key) (g : GDict α)
    (hlen : ∀ k ∈ ks, (lookupD g k []).length = E.numel k) (k : Key) (hk : k ∈ ks) :
    (lookupD (diagonalizeT E ks g) k []).length = (ks.map E.numel).sum := by
  rw [lookupD_diagonalizeT E ks g k hk, List.length_map, diagMat_length]
  exact length_flatMap_eq E.numel ks _ hlen

theorem lookupD_initT (E : Engine α) (ks : List Key) (k : Key) (hk : k ∈ ks) :
    lookupD (initT E ks) k [] = onesV (E.numel k) :=
  lookupD_map_self (fun k => onesV (E.numel k)) ks k [] hk

theorem initT_flat_getD (E : Engine α) (ks : List Key) (r : Nat) (hr : r < (ks.map E.numel).sum) :
    (ks.flatMap fun k => lookupD (initT E ks) k []).getD r 0 = (1 : α) := by
  have hlen : ∀ k ∈ ks, (lookupD (initT E ks) k []).length = E.numel k := by
    intro k hk; rw [lookupD_initT E ks k hk]; simp [onesV]
  have hflat := length_flatMap_eq E.numel ks _ hlen
  rw [List.getD_eq_getElem?_getD, List.getElem?_eq_getElem (by rw [hflat]; exact hr),
    Option.getD_some]
  have hmem := List.getElem_mem (l := ks.flatMap fun k => lookupD (initT E ks) k [])
    (n := r) (by rw [hflat]; exact hr)
  obtain ⟨k, hk, hx⟩ := List.mem_flatMap.mp hmem
  rw [lookupD_initT E ks k hk, onesV] at hx
  exact (List.mem_replicate.mp hx).2

theorem map_hot_offsetOf (numel : Key → Nat) (outs : List Key) (hnd : outs.Nodup) (b r : Nat) :
    outs.map (fun o => (hot (numel o) (b + offsetOf numel outs o) r : Vec α)) =
      hots numel outs b r := by
  induction outs generalizing b with
  | nil => rfl
  | cons a outs ih =>
    have hnd' := List.nodup_cons.mp hnd
    simp only [List.map_cons, hots, offsetOf, if_true, Nat.add_zero]
    congr 1
    rw [← ih hnd'.2 (b + numel a)]
    apply List.map_congr_left
    intro o ho
    have : a ≠ o := fun h => hnd'.1 (h ▸ ho)
    simp only [this, if_false, Nat.add_assoc]

theorem cotRow_init (E : Engine α) (tensors : List Key) (hnd : tensors.Nodup) (r : Nat)
    (hr : r < (tensors.map E.numel).sum) :
    cotRow tensors (diagonalizeT E tensors (initT E tensors)) r = hots E.numel tensors 0 r := by
  have hlen : ∀ k ∈ tensors, (lookupD (initT E tensors) k []).length = E.numel k := by
    intro k hk; rw [lookupD_initT E tensors k hk]; simp [onesV]
  rw [← map_hot_offsetOf E.numel tensors hnd 0 r]
  unfold cotRow
  apply List.map_congr_left
  intro o ho
  rw [diagonalizeT_row E tensors _ hlen o ho r hr, initT_flat_getD E tensors r hr]
  simp [hot]

theorem jacRow_init (E : Engine α) (hE : E.WF) (tensors inputs : List Key) (hnd : tensors.Nodup)
    (r : Nat) (hr : r < (tensors.map E.numel).sum) :
    jacRow E tensors inputs (diagonalizeT E tensors (initT E tensors)) r =
      inputs.flatMap fun i => locRow E tensors i r := by
  unfold jacRow
  apply flatMap_congr'
  intro i _
  rw [vjp1_spec E hE, cotRow_init E tensors hnd r hr, vsum_hots E hE tensors i 0 r]
  simp

/-- `Jac ∘ Diagonalize ∘ Init` on a valid call: the column blocks of `fullJac` -/
theorem jacT_backward (E : Engine α) (hE : E.WF) (tensors inputs : List Key) (chunk : Option Nat)
    (retain : Bool) (hnd : tensors.Nodup) (hrows : 0 < (tensors.map E.numel).sum)
    (hc : ∀ k, chunk = some k → 0 < k) (hne : inputs ≠ [])
    (ho : ∀ t ∈ tensors, E.requiresGrad t = true) (hi : ∀ i ∈ inputs, E.requiresGrad i = true) :
    ∃ sw, jacT E tensors inputs chunk retain (diagonalizeT E tensors (initT E tensors)) =
      .ok (List.zip inputs (subMatrices (inputs.map E.numel) (fullJac E tensors inputs)), sw) := by
  have hlen : ∀ k ∈ tensors, (lookupD (initT E tensors) k []).length = E.numel k := by
    intro k hk; rw [lookupD_initT E tensors k hk]; simp [onesV]
  have hte : tensors ≠ [] := by intro h0; rw [h0] at hrows; simp at hrows
  have hhead : tensors.headD 0 ∈ tensors := by
    cases tensors with
    | nil => exact absurd rfl hte
    | cons a t => simp
  have hm : (lookupD (diagonalizeT E tensors (initT E tensors)) (tensors.headD 0) []).length =
      (tensors.map E.numel).sum :=
    diagonalizeT_lookup_length E tensors _ hlen _ hhead
  obtain ⟨sw, hsw⟩ := jacT_ok E tensors inputs chunk retain
    (diagonalizeT E tensors (initT E tensors)) hne hte (by rw [hm]; exact hrows) hc
    (callOk_of E tensors inputs ho hi)
  refine ⟨sw, ?_⟩
  rw [hsw, hm, fullJac_eq_locRow]
  congr 4
  apply List.map_congr_left
  intro r hr
  exact jacRow_init E hE tensors inputs hnd r (List.mem_range.mp hr)

/-! ### Accumulate -/

theorem accumulate_fold (g : GDict α) (h : Grads α) (hnd : (g.map (·.1)).Nodup) (k : Key) :
    (g.foldl (fun (h : Grads α) (kv : Key × Vec α) =>
        match h kv.1 with
        | some old => h.set kv.1 (some (vadd old kv.2))
        | none => h.set kv.1 (some kv.2)) h) k =
      if k ∈ g.map (·.1) then accum (h k) (lookupD g k []) else h k := by
  induction g generalizing h with
  | nil => simp
  | cons a g ih =>
    rw [List.map_cons, List.nodup_cons] at hnd
    have hstep : (match h a.1 with
        | some old => h.set a.1 (some (vadd old a.2))
        | none => h.set a.1 (some a.2)) = h.set a.1 (accum (h a.1) a.2) := by
      cases h a.1 <;> rfl
    rw [List.foldl_cons, hstep, ih _ hnd.2]
    obtain ⟨a1, a2⟩ := a
    simp only [List.map_cons, List.mem_cons, lookupD_cons]
    by_cases hk : k = a1
    · subst hk
      have : k ∉ g.map (·.1) := hnd.1
      simp [this, Grads.set]
    · have hk' : ¬ a1 = k := fun h => hk h.symm
      simp only [Grads.set, hk, hk', if_false, false_or]

theorem accumulateT_ok (E : Engine α) (g : GDict α) (h : Grads α)
    (hexp : ∀ k ∈ g.map (·.1), E.expectsGrad k = true) (hnd : (g.map (·.1)).Nodup) :
    (accumulateT E g h).2 = none ∧
    ∀ k, (accumulateT E g h).1 k =
      if k ∈ g.map (·.1) then accum (h k) (lookupD g k []) else h k := by
  have hall : g.all (fun kv => E.expectsGrad kv.1) = true := by
    rw [List.all_eq_true]
    intro kv hkv
    exact hexp kv.1 (List.mem_map.mpr ⟨kv, hkv, rfl⟩)
  unfold accumulateT
  rw [if_pos hall]
  exact ⟨rfl, fun k => accumulate_fold g h hnd k⟩

/-! ### backward -/

theorem backward_eq_go (E : Engine α) (tensors inputs : List Key) (A : Mat α → Except Err (Vec α))
    (chunk : Option Int) (retain : Bool) (h : Grads α) (hc : ∀ c, chunk = some c → 0 < c) :
    backward E tensors inputs A chunk retain h =
      backward.go E tensors inputs A retain h (chunk.map Int.toNat) := by
  unfold backward
  cases chunk with
  | none => rfl
  | some c =>
    have := hc c rfl
    have hn : ¬ c ≤ 0 := by omega
    simp only [hn, if_false, Option.map_some]

theorem go_unfold (E : Engine α) (hE : E.WF) (tensors inputs : List Key)
    (A : Mat α → Except Err (Vec α)) (chunk : Option Nat) (retain : Bool) (h : Grads α)
    (hnd : tensors.Nodup) (hrows : 0 < (tensors.map E.numel).sum)
    (hc : ∀ k, chunk = some k → 0 < k) (hne : inputs ≠ [])
    (ho : ∀ t ∈ tensors, E.requiresGrad t = true) (hi : ∀ i ∈ inputs, E.requiresGrad i = true) :
    ∃ sw, backward.go E tensors inputs A retain h chunk =
      match aggregateT E A inputs
          (List.zip inputs (subMatrices (inputs.map E.numel) (fullJac E tensors inputs))) with
      | .error e => ⟨h, some e, sw⟩
      | .ok g1 => ⟨(accumulateT E g1 h).1, (accumulateT E g1 h).2, sw⟩ := by
  obtain ⟨sw, hsw⟩ := jacT_backward E hE tensors inputs chunk retain hnd hrows hc hne ho hi
  refine ⟨sw, ?_⟩
  have hte : tensors.isEmpty = false := by
    cases tensors with
    | nil => simp at hrows
    | cons a t => rfl
  have hd : hasDup tensors = false := (hasDup_eq_false_iff tensors).mpr hnd
  unfold backward.go
  simp only [hte, hd, Bool.false_eq_true, if_false, hsw]
  cases aggregateT E A inputs _ <;> rfl

/-- what `Aggregate` computes after `Jac ∘ Diagonalize ∘ Init`, in terms of `A (fullJac …)` -/
theorem aggregate_arg_eq (E : Engine α) (hE : E.WF) (tensors inputs : List Key)
    (hndI : inputs.Nodup) (hne : inputs ≠ []) :
    unite ((lookupD (List.zip inputs (subMatrices (inputs.map E.numel) (fullJac E tensors inputs)))
        (inputs.headD 0) []).length)
      (inputs.map fun k => lookupD
        (List.zip inputs (subMatrices (inputs.map E.numel) (fullJac E tensors inputs))) k []) =
      fullJac E tensors inputs :=
  unite_after_jac E.numel inputs _ hndI hne (fullJac_row_length E hE tensors inputs)

theorem go_ok (E : Engine α) (hE : E.WF) (tensors inputs : List Key)
    (A : Mat α → Except Err (Vec α)) (chunk : Option Nat) (retain : Bool) (h : Grads α)
    (hnd : tensors.Nodup) (hndI : inputs.Nodup) (hrows : 0 < (tensors.map E.numel).sum)
    (hc : ∀ k, chunk = some k → 0 < k) (hne : inputs ≠ [])
    (ho : ∀ t ∈ tensors, E.requiresGrad t = true)
    (hi : ∀ i ∈ inputs, E.requiresGrad i = true ∧ E.expectsGrad i = true)
    (v : Vec α) (hA : A (fullJac E tensors inputs) = .ok v)
    (hlen : v.length = (inputs.map E.numel).sum) :
    (backward.go E tensors inputs A retain h chunk).err = none ∧
    ∀ k, (backward.go E tensors inputs A retain h chunk).grads k =
      if k ∈ inputs then accum (h k) (sliceOf E.numel inputs k v) else h k := by
  obtain ⟨sw, hsw⟩ := go_unfold E hE tensors inputs A chunk retain h hnd hrows hc hne ho
    (fun i hi' => (hi i hi').1)
  have hagg := aggregateT_ok E A inputs
    (List.zip inputs (subMatrices (inputs.map E.numel) (fullJac E tensors inputs))) hne v
    (by rw [aggregate_arg_eq E hE tensors inputs hndI hne]; exact hA) hlen
  rw [hsw, hagg]
  have hkeys := zip_splitCols_keys E.numel inputs v
  have hacc := accumulateT_ok E (List.zip inputs (splitCols (inputs.map E.numel) v)) h
    (by rw [hkeys]; exact fun k hk => (hi k hk).2) (by rw [hkeys]; exact hndI)
  refine ⟨hacc.1, ?_⟩
  intro k
  have := hacc.2 k
  rw [hkeys] at this
  simp only []
  rw [this]
  by_cases hk : k ∈ inputs
  · rw [if_pos hk, if_pos hk, lookupD_zip_splitCols E.numel inputs k v hk]
  · rw [if_neg hk, if_neg hk]

theorem go_agg_error (E : Engine α) (hE : E.WF) (tensors inputs : List Key)
    (A : Mat α → Except Err (Vec α)) (chunk : Option Nat) (retain : Bool) (h : Grads α)
    (hnd : tensors.Nodup) (hndI : inputs.Nodup) (hrows : 0 < (tensors.map E.numel).sum)
    (hc : ∀ k, chunk = some k → 0 < k) (hne : inputs ≠ [])
    (ho : ∀ t ∈ tensors, E.requiresGrad t = true)
    (hi : ∀ i ∈ inputs, E.requiresGrad i = true)
    (e : Err) (hA : A (fullJac E tensors inputs) = .error e) :
    (backward.go E tensors inputs A retain h chunk).err = some e ∧
    (backward.go E tensors inputs A retain h chunk).grads = h := by
  obtain ⟨sw, hsw⟩ := go_unfold E hE tensors inputs A chunk retain h hnd hrows hc hne ho hi
  have hagg := aggregateT_error E A inputs
    (List.zip inputs (subMatrices (inputs.map E.numel) (fullJac E tensors inputs))) hne e
    (by rw [aggregate_arg_eq E hE tensors inputs hndI hne]; exact hA)
  rw [hsw, hagg]
  exact ⟨rfl, rfl⟩

theorem go_wrong_length (E : Engine α) (hE : E.WF) (tensors inputs : List Key)
    (A : Mat α → Except Err (Vec α)) (chunk : Option Nat) (retain : Bool) (h : Grads α)
    (hnd : tensors.Nodup) (hndI : inputs.Nodup) (hrows : 0 < (tensors.map E.numel).sum)
    (hc : ∀ k, chunk = some k → 0 < k) (hne : inputs ≠ [])
    (ho : ∀ t ∈ tensors, E.requiresGrad t = true)
    (hi : ∀ i ∈ inputs, E.requiresGrad i = true)
    (v : Vec α) (hA : A (fullJac E tensors inputs) = .ok v)
    (hlen : v.length ≠ (inputs.map E.numel).sum) :
    (backward.go E tensors inputs A retain h chunk).err = some Err.value ∧
    (backward.go E tensors inputs A retain h chunk).grads = h := by
  obtain ⟨sw, hsw⟩ := go_unfold E hE tensors inputs A chunk retain h hnd hrows hc hne ho hi
  have hagg := aggregateT_wrong_length E A inputs
    (List.zip inputs (subMatrices (inputs.map E.numel) (fullJac E tensors inputs))) hne v
    (by rw [aggregate_arg_eq E hE tensors inputs hndI hne]; exact hA) hlen
  rw [hsw, hagg]
  exact ⟨rfl, rfl⟩

theorem go_no_inputs (E : Engine α) (tensors : List Key)
    (A : Mat α → Except Err (Vec α)) (chunk : Option Nat) (retain : Bool) (h : Grads α)
    (ht : tensors ≠ []) (hnd : tensors.Nodup) :
    (backward.go E tensors [] A retain h chunk).err = none ∧
    (backward.go E tensors [] A retain h chunk).grads = h := by
  have hte : tensors.isEmpty = false := by cases tensors <;> simp_all
  have hd : hasDup tensors = false := (hasDup_eq_false_iff tensors).mpr hnd
  unfold backward.go
  simp only [hte, hd, Bool.false_eq_true, if_false]
  have h1 : jacT E tensors [] chunk retain (diagonalizeT E tensors (initT E tensors)) =
      .ok ([], []) := by
    simp [jacT, pure, Except.pure]
  have h2 : aggregateT E A [] ([] : JDict α) = .ok [] := by
    simp [aggregateT, pure, Except.pure]
  simp only [h1, h2]
  exact ⟨rfl, rfl⟩

theorem toNat_chunk_pos (chunk : Option Int) (hc : ∀ c, chunk = some c → 0 < c) :
    ∀ k, chunk.map Int.toNat = some k → 0 < k := by
  intro k hk
  cases chunk with
  | none => simp at hk
  | some c =>
    have := hc c rfl
    simp only [Option.map_some, Option.some.injEq] at hk
    omega

end
end Tjd.Autojac
