/- `wᵀ · fullJac` is the concatenation of the vector–Jacobian products (C05) -/
import TjdLemmas.Aj.Backward
import TjdLemmas.Aj.Perm
namespace Tjd.Autojac
open Tjd

section
variable {α : Type} [Semiring α]

theorem vadd_append (a b c d : Vec α) (h : a.length = c.length) :
    vadd (a ++ b) (c ++ d) = vadd a c ++ vadd b d := by
  unfold vadd
  exact List.zipWith_append h

theorem smul_append (t : α) (a b : Vec α) : smul t (a ++ b) = smul t a ++ smul t b := by
  simp [smul]

theorem zeros_add (a b : Nat) : (zeros (a + b) : Vec α) = zeros a ++ zeros b := by
  simp [zeros]

/-- linear combination of rows that are concatenations = concatenation of linear combinations -/
theorem combine_append_cols (a b : Nat) (A B : Mat α) (w : Vec α) (hl : A.length = B.length)
    (hA : ∀ row ∈ A, row.length = a) (hB : ∀ row ∈ B, row.length = b) :
    combine (a + b) (List.zipWith (· ++ ·) A B) w = combine a A w ++ combine b B w := by
  induction A generalizing B w with
  | nil =>
    cases B with
    | nil => simp [combine_nil_left, zeros_add]
    | cons y B => simp at hl
  | cons x A ih =>
    cases B with
    | nil => simp at hl
    | cons y B =>
      cases w with
      | nil => simp [combine_nil_right, zeros_add]
      | cons c w =>
        have hx : x.length = a := hA x (by simp)
        have hA' : ∀ row ∈ A, row.length = a := fun r hr => hA r (by simp [hr])
        have hB' : ∀ row ∈ B, row.length = b := fun r hr => hB r (by simp [hr])
        rw [List.zipWith_cons_cons, combine_cons, combine_cons, combine_cons,
          ih B w (by simpa using hl) hA' hB', smul_append, vadd_append]
        rw [smul_length, hx, combine_length a A w hA']

theorem vsum_zero_width (xs : List (Vec α)) : vsum 0 xs = [] := by
  induction xs with
  | nil => rfl
  | cons x xs ih => rw [vsum_cons, ih]; simp [vadd]

theorem combine_flatMap_cols {ρ : Type} (numel : Key → Nat) (ins : List Key) (rs : List ρ)
    (R : Key → ρ → Vec α) (w : Vec α) (hR : ∀ i ∈ ins, ∀ r ∈ rs, (R i r).length = numel i) :
    combine ((ins.map numel).sum) (rs.map fun r => ins.flatMap fun i => R i r) w =
      ins.flatMap fun i => combine (numel i) (rs.map (R i)) w := by
  induction ins with
  | nil => simp [combine_def, vsum_zero_width]
  | cons i ins ih =>
    have hzip : (rs.map fun r => (i :: ins).flatMap fun i => R i r) =
        List.zipWith (· ++ ·) (rs.map (R i)) (rs.map fun r => ins.flatMap fun i => R i r) := by
      rw [List.zipWith_map_left, List.zipWith_map_right, List.zipWith_self]
      simp
    rw [hzip, List.map_cons, List.sum_cons, combine_append_cols _ _ _ _ w (by simp)
      (by intro row hrow; obtain ⟨r, hr, rfl⟩ := List.mem_map.mp hrow; exact hR i (by simp) r hr)
      (by
        intro row hrow
        obtain ⟨r, hr, rfl⟩ := List.mem_map.mp hrow
        exact length_flatMap_eq numel ins _ (fun k hk => hR k (by simp [hk]) r hr)),
      ih (fun k hk r hr => hR k (by simp [hk]) r hr), List.flatMap_cons]

/-- linear combination of stacked row blocks -/
theorem combine_append_rows (n : Nat) (A B : Mat α) (w : Vec α)
    (hA : ∀ row ∈ A, row.length = n) (hB : ∀ row ∈ B, row.length = n) :
    combine n (A ++ B) w =
      vadd (combine n A (w.take A.length)) (combine n B (w.drop A.length)) := by
  induction A generalizing w with
  | nil =>
    simp only [List.nil_append, List.length_nil, List.take_zero, List.drop_zero, combine_nil_left]
    exact (zeros_vadd _ _ (Nat.le_of_eq (combine_length n B w hB))).symm
  | cons x A ih =>
    have hA' : ∀ row ∈ A, row.length = n := fun r hr => hA r (by simp [hr])
    cases w with
    | nil =>
      simp only [List.take_nil, List.drop_nil, combine_nil_right]
      exact (vadd_zeros _ _ (by simp)).symm
    | cons c w =>
      rw [List.cons_append, List.length_cons, List.take_succ_cons, List.drop_succ_cons,
        combine_cons, combine_cons, ih w hA', vadd_assoc]

theorem stacked_blocks (E : Engine α) (hE : E.WF) (outs : List Key) (i : Key) :
    (List.range ((outs.map E.numel).sum)).map (locRow E outs i) =
      outs.flatMap fun o => E.block o i := by
  induction outs with
  | nil => simp
  | cons o outs ih =>
    rw [List.map_cons, List.sum_cons, List.range_add, List.map_append, List.flatMap_cons, ← ih]
    congr 1
    · have : (List.range (E.numel o)).map (locRow E (o :: outs) i) =
          (List.range (E.numel o)).map (fun r => (E.block o i).getD r []) := by
        apply List.map_congr_left
        intro r hr
        simp [locRow, List.mem_range.mp hr]
      rw [this, ← block_length E hE o i, range_map_getD]
    · rw [List.map_map]
      apply List.map_congr_left
      intro r _
      have c : ¬ (E.numel o + r < E.numel o) := by omega
      simp only [Function.comp, locRow, if_neg c, Nat.add_sub_cancel_left]

theorem combine_stacked_blocks (E : Engine α) (hE : E.WF) (outs : List Key) (i : Key) (w : Vec α) :
    combine (E.numel i) (outs.flatMap fun o => E.block o i) w =
      vsum (E.numel i) ((List.zip outs (splitCols (outs.map E.numel) w)).map
        fun oc => vecMat (E.numel i) oc.2 (E.block oc.1 i)) := by
  induction outs generalizing w with
  | nil => simp [combine_nil_left, vsum_nil, splitCols]
  | cons o outs ih =>
    rw [List.flatMap_cons, combine_append_rows _ _ _ _ (block_rows E hE o i)
      (by
        intro row hrow
        obtain ⟨o', _, hrow⟩ := List.mem_flatMap.mp hrow
        exact block_rows E hE o' i row hrow),
      block_length E hE o i, ih]
    simp only [List.map_cons, splitCols, List.zip_cons_cons]
    rw [vsum_cons]
    rfl

/-- C05 core: `wᵀ J(outs, ins)` is the concatenation of the per-input deposits -/
theorem combine_fullJac (E : Engine α) (hE : E.WF) (outs ins : List Key) (w : Vec α) :
    combine ((ins.map E.numel).sum) (fullJac E outs ins) w =
      ins.flatMap fun i => autogradDeposit E outs w i := by
  rw [fullJac_eq_locRow,
    combine_flatMap_cols E.numel ins _ (fun i r => locRow E outs i r) w
      (fun i _ r _ => locRow_length E hE outs i r)]
  apply flatMap_congr'
  intro i _
  rw [stacked_blocks E hE outs i, combine_stacked_blocks E hE outs i w]
  unfold autogradDeposit
  rw [vjp1_spec E hE]

theorem autogradDeposit_length (E : Engine α) (hE : E.WF) (outs : List Key) (w : Vec α) (i : Key) :
    (autogradDeposit E outs w i).length = E.numel i :=
  materialize_vjp1_length E hE outs _ i


theorem fullJac_ne_nil (E : Engine α) (outs ins : List Key) (hrows : 0 < (outs.map E.numel).sum) :
    fullJac E outs ins ≠ [] := by
  intro h0
  have := fullJac_length E outs ins
  rw [h0] at this
  simp at this
  omega

theorem constAgg_fullJac (E : Engine α) (hE : E.WF) (outs ins : List Key) (w : Vec α)
    (hrows : 0 < (outs.map E.numel).sum) (hw : w.length = (outs.map E.numel).sum) :
    constAgg w (fullJac E outs ins) = .ok (ins.flatMap fun i => autogradDeposit E outs w i) := by
  unfold constAgg
  rw [if_neg (by rw [fullJac_length, hw]; simp),
    ncols_of_rows _ _ (fullJac_ne_nil E outs ins hrows) (fullJac_row_length E hE outs ins),
    combine_fullJac E hE]

theorem constAgg_fullJac_wrong (E : Engine α) (outs ins : List Key) (w : Vec α)
    (hw : w.length ≠ (outs.map E.numel).sum) :
    constAgg w (fullJac E outs ins) = .error Err.value := by
  unfold constAgg
  rw [if_pos (by rw [fullJac_length]; exact fun h => hw h.symm)]

theorem sumAgg_fullJac (E : Engine α) (hE : E.WF) (outs ins : List Key)
    (hrows : 0 < (outs.map E.numel).sum) :
    sumAgg (fullJac E outs ins) =
      .ok (ins.flatMap fun i => autogradDeposit E outs (onesV ((outs.map E.numel).sum)) i) := by
  unfold sumAgg
  rw [fullJac_length,
    ncols_of_rows _ _ (fullJac_ne_nil E outs ins hrows) (fullJac_row_length E hE outs ins),
    combine_fullJac E hE]

theorem deposits_length (E : Engine α) (hE : E.WF) (outs ins : List Key) (w : Vec α) :
    (ins.flatMap fun i => autogradDeposit E outs w i).length = (ins.map E.numel).sum :=
  length_flatMap_eq E.numel ins _ (fun i _ => autogradDeposit_length E hE outs w i)

theorem sliceOf_deposits (E : Engine α) (hE : E.WF) (outs ins : List Key) (w : Vec α) (k : Key)
    (hk : k ∈ ins) :
    sliceOf E.numel ins k (ins.flatMap fun i => autogradDeposit E outs w i) =
      autogradDeposit E outs w k :=
  sliceOf_flatMap E.numel ins k _ hk (fun i _ => autogradDeposit_length E hE outs w i)

end
end Tjd.Autojac
