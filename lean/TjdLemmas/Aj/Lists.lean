/- generic list lemmas for the autojac model: splitCols, sliceOf, lookupD, mapM, hasDup -/
import Mathlib.Algebra.Ring.Defs
import TjdModel.Autojac.Spec
namespace Tjd.Autojac
open Tjd

section lists
variable {β : Type}

theorem splitCols_length (ns : List Nat) (v : List β) : (splitCols ns v).length = ns.length := by
  induction ns generalizing v with
  | nil => rfl
  | cons n ns ih => simp [splitCols, ih]

theorem splitCols_flatten (ns : List Nat) (v : List β) :
    (splitCols ns v).flatten = v.take ns.sum := by
  induction ns generalizing v with
  | nil => simp [splitCols]
  | cons n ns ih => simp [splitCols, ih, List.take_add]

theorem range_map_getD (l : List β) (d : β) : (List.range l.length).map (fun i => l.getD i d) = l := by
  apply List.ext_getElem
  · simp
  · intro i h1 h2
    simp [List.getElem?_eq_getElem h2]

theorem getD_map_of_lt {γ δ : Type} (f : γ → δ) (l : List γ) (r : Nat) (d : γ) (d' : δ)
    (hr : r < l.length) : (l.map f).getD r d' = f (l.getD r d) := by
  simp [List.getD_eq_getElem?_getD, hr]

theorem range_map_getD_lt {δ : Type} (f : Nat → δ) (m r : Nat) (d : δ) (hr : r < m) :
    ((List.range m).map f).getD r d = f r := by
  simp [List.getD_eq_getElem?_getD, hr]

theorem flatMap_congr' {γ δ : Type} {l : List γ} {f g : γ → List δ} (h : ∀ x ∈ l, f x = g x) :
    l.flatMap f = l.flatMap g := by
  rw [List.flatMap_def, List.flatMap_def, List.map_congr_left h]

theorem range_flatMap_getD (l : List (List β)) :
    (List.range l.length).flatMap (fun i => l.getD i []) = l.flatten := by
  rw [List.flatMap_def, range_map_getD]


/-! ### lookupD -/

theorem lookupD_nil (k : Key) (dflt : β) : lookupD ([] : List (Key × β)) k dflt = dflt := rfl

theorem lookupD_cons (k' : Key) (v : β) (d : List (Key × β)) (k : Key) (dflt : β) :
    lookupD ((k', v) :: d) k dflt = if k' = k then v else lookupD d k dflt := by
  unfold lookupD
  by_cases h : k' = k
  · simp [h]
  · simp [h]

theorem lookupD_map_self (f : Key → β) (ks : List Key) (k : Key) (dflt : β) (hk : k ∈ ks) :
    lookupD (ks.map fun k => (k, f k)) k dflt = f k := by
  induction ks with
  | nil => simp at hk
  | cons a ks ih =>
    rw [List.map_cons, lookupD_cons]
    by_cases h : a = k
    · simp [h]
    · simp only [h, if_false]
      apply ih
      simpa [Ne.symm h] using hk

theorem lookupD_zip_range (ks : List Key) (F : Nat → β) (k : Key) (dflt : β) (hk : k ∈ ks) :
    lookupD (List.zip ks ((List.range ks.length).map F)) k dflt = F (ks.idxOf k) := by
  induction ks generalizing F with
  | nil => simp at hk
  | cons a ks ih =>
    rw [List.length_cons, List.range_succ_eq_map, List.map_cons, List.zip_cons_cons, lookupD_cons]
    by_cases h : a = k
    · simp [h]
    · have hk' : k ∈ ks := by simpa [Ne.symm h] using hk
      simp only [h, if_false, List.map_map]
      rw [ih (F ∘ Nat.succ) hk']
      have hb : (a == k) = false := by simpa using h
      simp [List.idxOf_cons, hb]

theorem map_lookupD_zip (ks : List Key) (vs : List β) (dflt : β) (hnd : ks.Nodup)
    (hlen : vs.length = ks.length) :
    ks.map (fun k => lookupD (List.zip ks vs) k dflt) = vs := by
  induction ks generalizing vs with
  | nil => cases vs <;> simp_all
  | cons a ks ih =>
    cases vs with
    | nil => simp at hlen
    | cons v vs =>
      have hnd' := List.nodup_cons.mp hnd
      simp only [List.zip_cons_cons, List.map_cons, lookupD_cons, if_true]
      congr 1
      refine Eq.trans ?_ (ih vs hnd'.2 (by simpa using hlen))
      apply List.map_congr_left
      intro k hk
      have : a ≠ k := fun h => hnd'.1 (h ▸ hk)
      simp [this]

/-! ### sliceOf / offsetOf -/

theorem splitCols_getD_idxOf (numel : Key → Nat) (ks : List Key) (k : Key) (v : List β)
    (hk : k ∈ ks) :
    (splitCols (ks.map numel) v).getD (ks.idxOf k) [] = sliceOf numel ks k v := by
  induction ks generalizing v with
  | nil => simp at hk
  | cons a ks ih =>
    by_cases h : a = k
    · simp [splitCols, sliceOf, h]
    · have hk' : k ∈ ks := by simpa [Ne.symm h] using hk
      simp only [List.map_cons, splitCols, sliceOf, h, if_false, List.idxOf_cons]
      have : (a == k) = false := by simpa using h
      simp only [this]
      rw [← ih _ hk']
      simp

theorem lookupD_zip_splitCols (numel : Key → Nat) (ks : List Key) (k : Key) (v : List β)
    (hk : k ∈ ks) :
    lookupD (List.zip ks (splitCols (ks.map numel) v)) k [] = sliceOf numel ks k v := by
  induction ks generalizing v with
  | nil => simp at hk
  | cons a ks ih =>
    simp only [List.map_cons, splitCols, List.zip_cons_cons, lookupD_cons, sliceOf]
    by_cases h : a = k
    · simp [h]
    · have hk' : k ∈ ks := by simpa [Ne.symm h] using hk
      simp only [h, if_false]
      exact ih _ hk'

theorem sliceOf_eq_drop_take (numel : Key → Nat) (ks : List Key) (k : Key) (v : List β)
    (hk : k ∈ ks) :
    sliceOf numel ks k v = (v.drop (offsetOf numel ks k)).take (numel k) := by
  induction ks generalizing v with
  | nil => simp at hk
  | cons a ks ih =>
    by_cases h : a = k
    · simp [sliceOf, offsetOf, h]
    · have hk' : k ∈ ks := by simpa [Ne.symm h] using hk
      simp only [sliceOf, offsetOf, h, if_false]
      rw [ih _ hk', List.drop_drop]

theorem sliceOf_flatMap (numel : Key → Nat) (ks : List Key) (k : Key) (W : Key → List β)
    (hk : k ∈ ks) (hW : ∀ k' ∈ ks, (W k').length = numel k') :
    sliceOf numel ks k (ks.flatMap W) = W k := by
  induction ks with
  | nil => simp at hk
  | cons a ks ih =>
    have ha : (W a).length = numel a := hW a (by simp)
    by_cases h : a = k
    · subst h
      simp [sliceOf, List.flatMap_cons, ha]
    · have hk' : k ∈ ks := by simpa [Ne.symm h] using hk
      simp only [sliceOf, h, if_false, List.flatMap_cons]
      rw [List.drop_append, ← ha]
      simp only [List.drop_length, Nat.sub_self, List.drop_zero, List.nil_append]
      exact ih hk' (fun k' hk'' => hW k' (by simp [hk'']))

theorem offsetOf_add_le (numel : Key → Nat) (ks : List Key) (k : Key) (hk : k ∈ ks) :
    offsetOf numel ks k + numel k ≤ (ks.map numel).sum := by
  induction ks with
  | nil => simp at hk
  | cons a ks ih =>
    by_cases h : a = k
    · subst h; simp [offsetOf]
    · have hk' : k ∈ ks := by simpa [Ne.symm h] using hk
      have := ih hk'
      simp only [offsetOf, h, if_false, List.map_cons, List.sum_cons]
      omega

theorem length_flatMap_eq (numel : Key → Nat) (ks : List Key) (W : Key → List β)
    (hW : ∀ k' ∈ ks, (W k').length = numel k') :
    (ks.flatMap W).length = (ks.map numel).sum := by
  induction ks with
  | nil => simp
  | cons a ks ih =>
    simp only [List.flatMap_cons, List.length_append, List.map_cons, List.sum_cons]
    rw [ih (fun k' hk'' => hW k' (by simp [hk''])), hW a (by simp)]

theorem getD_of_drop_take (l w : List β) (a n c : Nat) (d : β) (h : (l.drop a).take n = w)
    (hc : c < n) : l.getD (a + c) d = w.getD c d := by
  subst h
  simp only [List.getD_eq_getElem?_getD, List.getElem?_take, hc, if_true, List.getElem?_drop]

theorem flatMap_getD_offset (numel : Key → Nat) (ks : List Key) (k : Key) (W : Key → List β)
    (hk : k ∈ ks) (hW : ∀ k' ∈ ks, (W k').length = numel k') (c : Nat) (hc : c < numel k) (d : β) :
    (ks.flatMap W).getD (offsetOf numel ks k + c) d = (W k).getD c d := by
  apply getD_of_drop_take _ _ _ (numel k) _ _ _ hc
  rw [← sliceOf_eq_drop_take numel ks k _ hk, sliceOf_flatMap numel ks k W hk hW]

/-! ### mapM in Except -/

theorem mapM_ok {ε γ δ : Type} (f : γ → Except ε δ) (g : γ → δ) (xs : List γ)
    (h : ∀ x ∈ xs, f x = .ok (g x)) : xs.mapM f = .ok (xs.map g) := by
  induction xs with
  | nil => rfl
  | cons x xs ih =>
    rw [List.mapM_cons, h x (by simp), ih (fun y hy => h y (by simp [hy]))]
    rfl

theorem mapM_error_head {ε γ δ : Type} (f : γ → Except ε δ) (x : γ) (xs : List γ) (e : ε)
    (h : f x = .error e) : (x :: xs).mapM f = .error e := by
  rw [List.mapM_cons, h]
  rfl

/-! ### hasDup -/

theorem hasDup_eq_false_iff (l : List Key) : hasDup l = false ↔ l.Nodup := by
  induction l with
  | nil => simp [hasDup]
  | cons a l ih => simp [hasDup, ih, List.nodup_cons]

end lists
end Tjd.Autojac
