/- column permutations: linearity of `permCols`, the index permutation induced by reordering inputs -/
import TjdLemmas.Aj.Backward
namespace Tjd.Autojac
open Tjd

section
variable {α : Type} [Semiring α]

/-- `permCols` of C01, restated here (the property file's definition unfolds to this) -/
def pc (p : List Nat) (row : Vec α) : Vec α := p.map fun c => row.getD c 0

theorem pc_length (p : List Nat) (row : Vec α) : (pc p row).length = p.length := by simp [pc]

theorem vadd_getD (a b : Vec α) (h : a.length = b.length) (c : Nat) :
    (vadd a b).getD c 0 = a.getD c 0 + b.getD c 0 := by
  induction a generalizing b c with
  | nil =>
    cases b with
    | nil => simp [vadd]
    | cons y b => simp at h
  | cons x a ih =>
    cases b with
    | nil => simp at h
    | cons y b =>
      cases c with
      | zero => simp [vadd]
      | succ c =>
        have := ih b (by simpa using h) c
        simp only [vadd] at this ⊢
        simpa using this

theorem smul_getD (t : α) (a : Vec α) (c : Nat) : (smul t a).getD c 0 = t * a.getD c 0 := by
  simp only [smul, List.getD_eq_getElem?_getD, List.getElem?_map]
  cases a[c]? <;> simp

theorem pc_vadd (p : List Nat) (a b : Vec α) (h : a.length = b.length) :
    pc p (vadd a b) = vadd (pc p a) (pc p b) := by
  induction p with
  | nil => simp [pc, vadd]
  | cons c p ih =>
    simp only [pc, vadd] at ih ⊢
    simp only [List.map_cons, List.zipWith_cons_cons, ← ih]
    congr 1
    exact vadd_getD a b h c

theorem pc_smul (p : List Nat) (t : α) (a : Vec α) : pc p (smul t a) = smul t (pc p a) := by
  simp only [pc, smul, List.map_map]
  apply List.map_congr_left
  intro c _
  exact smul_getD t a c

theorem pc_zeros (p : List Nat) (n : Nat) : pc p (zeros n : Vec α) = zeros p.length := by
  induction p with
  | nil => rfl
  | cons c p ih =>
    simp only [pc, zeros] at ih ⊢
    simp only [List.map_cons, List.length_cons, List.replicate_succ, ih]
    congr 1
    simp only [List.getD_eq_getElem?_getD, List.getElem?_replicate]
    split <;> rfl

theorem pc_vsum (p : List Nat) (n : Nat) (xs : List (Vec α)) (h : ∀ x ∈ xs, x.length = n) :
    pc p (vsum n xs) = vsum p.length (xs.map (pc p)) := by
  induction xs with
  | nil => simp [vsum_nil, pc_zeros]
  | cons x xs ih =>
    have hxs : ∀ y ∈ xs, y.length = n := fun y hy => h y (by simp [hy])
    rw [List.map_cons, vsum_cons, vsum_cons, ← ih hxs]
    apply pc_vadd
    rw [h x (by simp), vsum_length n xs hxs]

theorem pc_combine (p : List Nat) (n : Nat) (J : Mat α) (w : Vec α)
    (h : ∀ row ∈ J, row.length = n) :
    combine p.length (J.map (pc p)) w = pc p (combine n J w) := by
  rw [combine_def, combine_def, pc_vsum p n _ (zipWith_smul_lengths n J w h)]
  congr 1
  rw [List.zipWith_map_right, List.map_zipWith]
  congr 1
  funext c row
  exact (pc_smul p c row).symm

theorem ncols_map_pc (p : List Nat) (J : Mat α) (hJ : J ≠ []) : ncols (J.map (pc p)) = p.length := by
  cases J with
  | nil => exact absurd rfl hJ
  | cons row J => simp [ncols, pc]

omit [Semiring α] in
theorem ncols_of_rows (n : Nat) (J : Mat α) (hJ : J ≠ []) (h : ∀ row ∈ J, row.length = n) :
    ncols J = n := by
  cases J with
  | nil => exact absurd rfl hJ
  | cons row J => simpa [ncols] using h row (by simp)

end

/-! ### the column permutation induced by reordering the inputs -/

section
variable {β : Type}

def colPerm (numel : Key → Nat) (I I' : List Key) : List Nat :=
  I'.flatMap fun k => (List.range (numel k)).map (offsetOf numel I k + ·)

theorem offsets_flatMap_range (numel : Key → Nat) (ks : List Key) (hnd : ks.Nodup) (b0 : Nat) :
    ks.flatMap (fun k => (List.range (numel k)).map (b0 + offsetOf numel ks k + ·)) =
      (List.range ((ks.map numel).sum)).map (b0 + ·) := by
  induction ks generalizing b0 with
  | nil => simp
  | cons a ks ih =>
    have hnd' := List.nodup_cons.mp hnd
    rw [List.flatMap_cons, List.map_cons, List.sum_cons, List.range_add, List.map_append]
    congr 1
    · simp [offsetOf]
    · rw [List.map_map]
      refine Eq.trans (flatMap_congr' ?_) (Eq.trans (ih hnd'.2 (b0 + numel a)) ?_)
      · intro k hk
        have : a ≠ k := fun h => hnd'.1 (h ▸ hk)
        apply List.map_congr_left
        intro x _
        simp only [offsetOf, this, if_false]
        omega
      · apply List.map_congr_left
        intro x _
        simp only [Function.comp]
        omega


theorem colPerm_self (numel : Key → Nat) (I : List Key) (hnd : I.Nodup) :
    colPerm numel I I = List.range ((I.map numel).sum) := by
  have := offsets_flatMap_range numel I hnd 0
  simp only [Nat.zero_add] at this
  unfold colPerm
  rw [this]
  simp

theorem colPerm_perm (numel : Key → Nat) (I I' : List Key) (hnd : I.Nodup) (hperm : I.Perm I') :
    (colPerm numel I I').Perm (List.range ((I.map numel).sum)) := by
  rw [← colPerm_self numel I hnd]
  unfold colPerm
  exact (List.Perm.flatMap_right _ hperm).symm

theorem drop_take_eq_range_map (v : List β) (a n : Nat) (d : β) (h : a + n ≤ v.length) :
    (v.drop a).take n = (List.range n).map fun c => v.getD (a + c) d := by
  apply List.ext_getElem
  · simp; omega
  · intro i h1 h2
    have h3 : i < n := by simpa using h2
    simp only [List.getElem_take, List.getElem_drop, List.getElem_map, List.getElem_range,
      List.getD_eq_getElem?_getD]
    rw [List.getElem?_eq_getElem (by omega), Option.getD_some]

/-- reading a concatenation of blocks (layout `I`) through `colPerm` yields the layout `I'` -/
theorem map_colPerm_flatMap (numel : Key → Nat) (I I' : List Key) (W : Key → List β) (d : β)
    (hW : ∀ k ∈ I, (W k).length = numel k) (hsub : ∀ k ∈ I', k ∈ I) :
    (colPerm numel I I').map (fun c => (I.flatMap W).getD c d) = I'.flatMap W := by
  unfold colPerm
  rw [List.map_flatMap]
  apply flatMap_congr'
  intro k hk
  rw [List.map_map]
  have hk' := hsub k hk
  have h1 : (List.range (numel k)).map
        ((fun c => (I.flatMap W).getD c d) ∘ fun x => offsetOf numel I k + x) =
      (List.range (numel k)).map (fun c => (W k).getD c d) := by
    apply List.map_congr_left
    intro c hc
    exact flatMap_getD_offset numel I k W hk' hW c (List.mem_range.mp hc) d
  rw [h1, ← hW k hk', range_map_getD]

theorem map_colPerm_eq (numel : Key → Nat) (I I' : List Key) (v : List β) (d : β) :
    (colPerm numel I I').map (fun c => v.getD c d) =
      I'.flatMap fun k => (List.range (numel k)).map fun c => v.getD (offsetOf numel I k + c) d := by
  unfold colPerm
  rw [List.map_flatMap]
  apply flatMap_congr'
  intro k _
  rw [List.map_map]
  rfl

theorem sliceOf_colPerm (numel : Key → Nat) (I I' : List Key) (v : List β) (d : β) (k : Key)
    (hk : k ∈ I) (hk' : k ∈ I') (hlen : v.length = (I.map numel).sum) :
    sliceOf numel I' k ((colPerm numel I I').map fun c => v.getD c d) = sliceOf numel I k v := by
  rw [map_colPerm_eq, sliceOf_flatMap numel I' k _ hk' (by intro k' _; simp),
    sliceOf_eq_drop_take numel I k v hk]
  have := offsetOf_add_le numel I k hk
  exact (drop_take_eq_range_map v _ _ d (by omega)).symm

end

section
variable {α : Type} [Semiring α]

theorem fullJac_colPerm (E : Engine α) (hE : E.WF) (tensors I I' : List Key)
    (hsub : ∀ k ∈ I', k ∈ I) :
    fullJac E tensors I' = (fullJac E tensors I).map (pc (colPerm E.numel I I')) := by
  unfold fullJac
  rw [List.map_flatMap]
  apply flatMap_congr'
  intro o _
  unfold fullJacRows
  rw [List.map_map]
  apply List.map_congr_left
  intro r hr
  have hr' : r < E.numel o := List.mem_range.mp hr
  simp only [Function.comp, pc]
  exact (map_colPerm_flatMap E.numel I I' (fun i => (E.block o i).getD r []) 0
    (fun i _ => block_getD_length E hE o i r hr') hsub).symm

end
end Tjd.Autojac
