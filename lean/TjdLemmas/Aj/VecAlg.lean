/- algebra of list vectors: vadd, smul, vsum, combine -/
import Mathlib.Algebra.Ring.Defs
import TjdModel.Autojac.Spec
namespace Tjd.Autojac
open Tjd

section vec
variable {α : Type} [Semiring α]

@[simp] theorem zeros_length (n : Nat) : (zeros n : Vec α).length = n := by simp [zeros]

@[simp] theorem vadd_length (x y : Vec α) : (vadd x y).length = min x.length y.length := by
  simp [vadd]

@[simp] theorem smul_length (c : α) (x : Vec α) : (smul c x).length = x.length := by simp [smul]

theorem vadd_comm (x y : Vec α) : vadd x y = vadd y x := by
  unfold vadd
  exact List.zipWith_comm_of_comm (fun a b => add_comm a b)

theorem vadd_assoc (x y z : Vec α) : vadd (vadd x y) z = vadd x (vadd y z) := by
  induction x generalizing y z with
  | nil => simp [vadd]
  | cons a x ih =>
    cases y with
    | nil => simp [vadd]
    | cons b y =>
      cases z with
      | nil => simp [vadd]
      | cons c z =>
        have := ih y z
        simp only [vadd] at this ⊢
        simp [add_assoc, this]

theorem vadd_zeros (x : Vec α) (n : Nat) (h : x.length ≤ n) : vadd x (zeros n) = x := by
  induction x generalizing n with
  | nil => simp [vadd]
  | cons a x ih =>
    cases n with
    | zero => simp at h
    | succ n =>
      have := ih n (by simpa using h)
      simp only [vadd, zeros] at this ⊢
      simp [List.replicate_succ, this]

theorem zeros_vadd (x : Vec α) (n : Nat) (h : x.length ≤ n) : vadd (zeros n) x = x := by
  rw [vadd_comm, vadd_zeros x n h]

theorem smul_zeros (c : α) (n : Nat) : smul c (zeros n : Vec α) = zeros n := by
  simp [smul, zeros]

theorem zero_smul_vec (x : Vec α) : smul (0 : α) x = zeros x.length := by
  simp only [smul, zeros, zero_mul]
  induction x with
  | nil => rfl
  | cons a x ih => simp [List.replicate_succ, ih]

theorem one_smul_vec (x : Vec α) : smul (1 : α) x = x := by
  simp [smul]

theorem smul_vadd (c : α) (x y : Vec α) : smul c (vadd x y) = vadd (smul c x) (smul c y) := by
  induction x generalizing y with
  | nil => simp [vadd, smul]
  | cons a x ih =>
    cases y with
    | nil => simp [vadd, smul]
    | cons b y =>
      have := ih y
      simp only [vadd, smul] at this ⊢
      simp [mul_add, this]

theorem add_smul_vec (a b : α) (x : Vec α) : smul (a + b) x = vadd (smul a x) (smul b x) := by
  induction x with
  | nil => simp [vadd, smul]
  | cons c x ih =>
    simp only [vadd, smul] at ih ⊢
    simp [add_mul]

theorem mul_smul_vec (a b : α) (x : Vec α) : smul (a * b) x = smul a (smul b x) := by
  simp [smul, mul_assoc]

theorem foldl_vadd (a b : Vec α) (xs : List (Vec α)) :
    List.foldl vadd (vadd a b) xs = vadd a (List.foldl vadd b xs) := by
  induction xs generalizing b with
  | nil => rfl
  | cons x xs ih => simp only [List.foldl_cons, vadd_assoc, ih]

theorem vsum_nil (n : Nat) : vsum n ([] : List (Vec α)) = zeros n := rfl

theorem vsum_cons (n : Nat) (x : Vec α) (xs : List (Vec α)) :
    vsum n (x :: xs) = vadd x (vsum n xs) := by
  unfold vsum
  rw [List.foldl_cons, vadd_comm, foldl_vadd]

theorem vsum_length (n : Nat) (xs : List (Vec α)) (h : ∀ x ∈ xs, x.length = n) :
    (vsum n xs).length = n := by
  induction xs with
  | nil => simp [vsum_nil]
  | cons x xs ih =>
    rw [vsum_cons n x xs, vadd_length, h x (by simp),
      ih (fun y hy => h y (by simp [hy]))]
    simp

theorem vsum_append (n : Nat) (xs ys : List (Vec α)) (hx : ∀ x ∈ xs, x.length = n)
    (hy : ∀ y ∈ ys, y.length = n) :
    vsum n (xs ++ ys) = vadd (vsum n xs) (vsum n ys) := by
  induction xs with
  | nil => simp [vsum_nil, zeros_vadd _ n (Nat.le_of_eq (vsum_length n ys hy))]
  | cons x xs ih =>
    have hx' : x.length = n := hx x (by simp)
    rw [List.cons_append, vsum_cons n _ _, vsum_cons n _ _,
      ih (fun y hy => hx y (by simp [hy])), vadd_assoc]

theorem vsum_all_zeros (n : Nat) (xs : List (Vec α)) (h : ∀ x ∈ xs, x = zeros n) :
    vsum n xs = zeros n := by
  induction xs with
  | nil => rfl
  | cons x xs ih =>
    rw [vsum_cons n x xs, ih (fun y hy => h y (by simp [hy])),
      h x (by simp), vadd_zeros _ n (by simp)]

theorem vsum_zipWith_vadd (n : Nat) (xs ys : List (Vec α)) (hl : xs.length = ys.length)
    (hx : ∀ x ∈ xs, x.length = n) (hy : ∀ y ∈ ys, y.length = n) :
    vsum n (List.zipWith vadd xs ys) = vadd (vsum n xs) (vsum n ys) := by
  induction xs generalizing ys with
  | nil =>
    cases ys with
    | nil => simp [vsum_nil, vadd_zeros]
    | cons y ys => simp at hl
  | cons x xs ih =>
    cases ys with
    | nil => simp at hl
    | cons y ys =>
      have hx' : x.length = n := hx x (by simp)
      have hy' : y.length = n := hy y (by simp)
      rw [List.zipWith_cons_cons, vsum_cons n _ _, vsum_cons n _ _,
        vsum_cons n _ _, ih ys (by simpa using hl) (fun z hz => hx z (by simp [hz]))
          (fun z hz => hy z (by simp [hz]))]
      rw [vadd_assoc, vadd_assoc]
      congr 1
      rw [← vadd_assoc, ← vadd_assoc, vadd_comm y]

theorem vsum_map_smul (n : Nat) (t : α) (xs : List (Vec α)) (hx : ∀ x ∈ xs, x.length = n) :
    vsum n (xs.map (smul t)) = smul t (vsum n xs) := by
  induction xs with
  | nil => simp [vsum_nil, smul_zeros]
  | cons x xs ih =>
    have hx' : x.length = n := hx x (by simp)
    rw [List.map_cons, vsum_cons n _ _, vsum_cons n _ _,
      ih (fun z hz => hx z (by simp [hz])), smul_vadd]

/-! ### combine -/

theorem combine_def (n : Nat) (J : Mat α) (w : Vec α) :
    combine n J w = vsum n (List.zipWith smul w J) := rfl

theorem combine_nil_left (n : Nat) (w : Vec α) : combine n ([] : Mat α) w = zeros n := by
  simp [combine_def, vsum_nil]

theorem combine_nil_right (n : Nat) (J : Mat α) : combine n J ([] : Vec α) = zeros n := by
  simp [combine_def, vsum_nil]

theorem combine_cons (n : Nat) (row : Vec α) (J : Mat α) (c : α) (w : Vec α) :
    combine n (row :: J) (c :: w) = vadd (smul c row) (combine n J w) := by
  rw [combine_def, List.zipWith_cons_cons, vsum_cons n _ _]
  rfl

theorem zipWith_smul_lengths (n : Nat) (J : Mat α) (w : Vec α) (h : ∀ row ∈ J, row.length = n) :
    ∀ x ∈ List.zipWith smul w J, x.length = n := by
  intro x hx
  rw [List.mem_iff_getElem] at hx
  obtain ⟨i, hi, rfl⟩ := hx
  simp only [List.getElem_zipWith, smul_length]
  exact h _ (List.getElem_mem _)

theorem combine_length (n : Nat) (J : Mat α) (w : Vec α) (h : ∀ row ∈ J, row.length = n) :
    (combine n J w).length = n :=
  vsum_length n _ (zipWith_smul_lengths n J w h)

theorem combine_zero_rows (n : Nat) (J : Mat α) (w : Vec α) (h : ∀ row ∈ J, row = zeros n) :
    combine n J w = zeros n := by
  apply vsum_all_zeros
  intro x hx
  rw [List.mem_iff_getElem] at hx
  obtain ⟨i, hi, rfl⟩ := hx
  simp only [List.getElem_zipWith]
  rw [h _ (List.getElem_mem _), smul_zeros]

theorem combine_vadd (n : Nat) (J : Mat α) (c₁ c₂ : Vec α) (hl : c₁.length = c₂.length)
    (h : ∀ row ∈ J, row.length = n) :
    combine n J (vadd c₁ c₂) = vadd (combine n J c₁) (combine n J c₂) := by
  induction J generalizing c₁ c₂ with
  | nil => simp [combine_nil_left, vadd_zeros]
  | cons row J ih =>
    cases c₁ with
    | nil =>
      cases c₂ with
      | nil =>
        have : vadd ([] : Vec α) [] = [] := rfl
        rw [this, combine_nil_right, vadd_zeros _ n (by simp)]
      | cons b c₂ => simp at hl
    | cons a c₁ =>
      cases c₂ with
      | nil => simp at hl
      | cons b c₂ =>
        have hr : row.length = n := h row (by simp)
        have hJ : ∀ r ∈ J, r.length = n := fun r hr => h r (by simp [hr])
        have : vadd (a :: c₁) (b :: c₂) = (a + b) :: vadd c₁ c₂ := by simp [vadd]
        rw [this, combine_cons n _ _ _ _, combine_cons n _ _ _ _, combine_cons n _ _ _ _,
          ih c₁ c₂ (by simpa using hl) hJ, add_smul_vec]
        rw [vadd_assoc, vadd_assoc]
        congr 1
        rw [← vadd_assoc, ← vadd_assoc, vadd_comm (smul b row)]

theorem combine_smul (n : Nat) (J : Mat α) (t : α) (c : Vec α) (h : ∀ row ∈ J, row.length = n) :
    combine n J (smul t c) = smul t (combine n J c) := by
  induction J generalizing c with
  | nil => simp [combine_nil_left, smul_zeros]
  | cons row J ih =>
    cases c with
    | nil =>
      have : smul t ([] : Vec α) = [] := rfl
      rw [this, combine_nil_right, smul_zeros]
    | cons a c =>
      have hr : row.length = n := h row (by simp)
      have hJ : ∀ r ∈ J, r.length = n := fun r hr => h r (by simp [hr])
      have : smul t (a :: c) = (t * a) :: smul t c := by simp [smul]
      rw [this, combine_cons n _ _ _ _, combine_cons n _ _ _ _, ih c hJ, mul_smul_vec,
        smul_vadd]

end vec
end Tjd.Autojac
