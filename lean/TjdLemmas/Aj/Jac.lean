/- `jacT`: unfolding, success under `callOk`, row-by-row description -/
import TjdLemmas.Aj.Transforms
import TjdLemmas.Aj.Chunks
namespace Tjd.Autojac
open Tjd

theorem mapM_ok_inv {ε γ δ : Type} (f : γ → Except ε δ) (xs : List γ) (ys : List δ)
    (h : xs.mapM f = .ok ys) : ∀ x ∈ xs, ∃ y, f x = .ok y := by
  induction xs generalizing ys with
  | nil => intro x hx; simp at hx
  | cons a xs ih =>
    rw [List.mapM_cons] at h
    cases ha : f a with
    | error e => rw [ha] at h; cases h
    | ok b =>
      cases hxs : xs.mapM f with
      | error e => rw [ha, hxs] at h; cases h
      | ok bs =>
        intro x hx
        rcases List.mem_cons.mp hx with hx | hx
        · subst hx; exact ⟨b, ha⟩
        · exact ih bs hxs x hx

section
variable {α : Type} [Zero α] [Add α] [Mul α]

/-- row `r` of the Jacobian matrix computed by `Jac` (all inputs concatenated) -/
def jacRow (E : Engine α) (outs ins : List Key) (j : JDict α) (r : Nat) : Vec α :=
  ins.flatMap fun i => materialize E i (E.vjp1 outs (cotRow outs j r) i)

theorem jacT_unfold (E : Engine α) (outs ins : List Key) (chunk : Option Nat) (retain : Bool)
    (j : JDict α) (hins : ins ≠ []) (houts : outs ≠ [])
    (hm : 0 < (lookupD j (outs.headD 0) []).length) (hc : ∀ k, chunk = some k → 0 < k) :
    ∃ sw, jacT E outs ins chunk retain j =
      ((chunkRanges (lookupD j (outs.headD 0) []).length chunk).mapM
          fun se => jacChunk E outs ins j se.1 se.2).map
        fun blocks => (List.zip ins (subMatrices (ins.map E.numel) blocks.flatten), sw) := by
  unfold jacT
  have h1 : ins.isEmpty = false := by cases ins <;> simp_all
  have h2 : outs.isEmpty = false := by cases outs <;> simp_all
  have h3 : ¬ (lookupD j (outs.headD 0) []).length = 0 := by omega
  have h4 : ¬ chunk = some 0 := fun h => by have := hc 0 h; omega
  simp only [h1, h2, h3, h4, Bool.false_eq_true, if_false]
  generalize List.mapM (m := Except Err) (fun x : Nat × Nat => jacChunk E outs ins j x.fst x.snd) _ = res
  cases res with
  | error e => exact ⟨[], rfl⟩
  | ok b => exact ⟨_, rfl⟩

theorem vjpRow_ok (E : Engine α) (outs ins : List Key) (cots : List (Vec α))
    (hcall : E.callOk outs ins = true) :
    vjpRow E outs ins cots =
      .ok (ins.flatMap fun i => materialize E i (E.vjp1 outs cots i)) := by
  simp [vjpRow, Engine.vjp, hcall, bind, Except.bind, pure, Except.pure, List.flatMap_def]

theorem vjpRow_error (E : Engine α) (outs ins : List Key) (cots : List (Vec α))
    (hcall : E.callOk outs ins = false) :
    vjpRow E outs ins cots = .error Err.runtime := by
  simp [vjpRow, Engine.vjp, hcall, bind, Except.bind]

theorem jacChunk_ok (E : Engine α) (outs ins : List Key) (j : JDict α) (s e : Nat)
    (hcall : E.callOk outs ins = true) :
    jacChunk E outs ins j s e =
      .ok (((List.range (e - s)).map (· + s)).map (jacRow E outs ins j)) := by
  unfold jacChunk
  apply mapM_ok
  intro r _
  exact vjpRow_ok E outs ins _ hcall

theorem jacT_ok (E : Engine α) (outs ins : List Key) (chunk : Option Nat) (retain : Bool)
    (j : JDict α) (hins : ins ≠ []) (houts : outs ≠ [])
    (hm : 0 < (lookupD j (outs.headD 0) []).length) (hc : ∀ k, chunk = some k → 0 < k)
    (hcall : E.callOk outs ins = true) :
    ∃ sw, jacT E outs ins chunk retain j =
      .ok (List.zip ins (subMatrices (ins.map E.numel)
        ((List.range (lookupD j (outs.headD 0) []).length).map (jacRow E outs ins j))), sw) := by
  obtain ⟨sw, hsw⟩ := jacT_unfold E outs ins chunk retain j hins houts hm hc
  refine ⟨sw, ?_⟩
  rw [hsw, mapM_ok _ (fun se => ((List.range (se.2 - se.1)).map (· + se.1)).map (jacRow E outs ins j))
    _ (fun se _ => jacChunk_ok E outs ins j se.1 se.2 hcall)]
  simp only [Except.map]
  rw [← List.flatMap_def, ← chunkRanges_tile _ chunk hm hc, List.map_flatMap]

theorem jacT_callOk_of_ok (E : Engine α) (outs ins : List Key) (chunk : Option Nat) (retain : Bool)
    (j : JDict α) (hins : ins ≠ []) (houts : outs ≠ [])
    (hm : 0 < (lookupD j (outs.headD 0) []).length) (hc : ∀ k, chunk = some k → 0 < k)
    (x : JDict α × List Sweep) (h : jacT E outs ins chunk retain j = .ok x) :
    E.callOk outs ins = true := by
  obtain ⟨sw, hsw⟩ := jacT_unfold E outs ins chunk retain j hins houts hm hc
  rw [hsw] at h
  cases hmap : (chunkRanges (lookupD j (outs.headD 0) []).length chunk).mapM
      (fun se => jacChunk E outs ins j se.1 se.2) with
  | error e => rw [hmap] at h; cases h
  | ok blocks =>
    have hall := mapM_ok_inv _ _ _ hmap
    have h0 : 0 ∈ List.range (lookupD j (outs.headD 0) []).length := List.mem_range.mpr hm
    rw [← chunkRanges_tile _ chunk hm hc, List.mem_flatMap] at h0
    obtain ⟨se, hse, h0⟩ := h0
    obtain ⟨rows, hrows⟩ := hall se hse
    unfold jacChunk at hrows
    obtain ⟨y, hy⟩ := mapM_ok_inv _ _ _ hrows 0 h0
    cases hcall : E.callOk outs ins with
    | true => rfl
    | false => rw [vjpRow_error E outs ins _ hcall] at hy; cases hy

end

section
variable {α : Type}

theorem lookupD_zip_subMatrices (numel : Key → Nat) (ins : List Key) (M : Mat α) (i : Key)
    (hi : i ∈ ins) :
    lookupD (List.zip ins (subMatrices (ins.map numel) M)) i [] = M.map (sliceOf numel ins i) := by
  unfold subMatrices
  rw [List.length_map, lookupD_zip_range ins _ i [] hi]
  apply List.map_congr_left
  intro row _
  exact splitCols_getD_idxOf numel ins i row hi

end
end Tjd.Autojac
