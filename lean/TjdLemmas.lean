-- root of the helper-lemma library
import TjdLemmas.C14Lemmas
import TjdLemmas.C07Lemmas
import TjdLemmas.AutojacLemmas
import TjdLemmas.MtlLemmas
import TjdLemmas.C06Lemmas
import TjdLemmas.C12Lemmas
import TjdLemmas.C13Lemmas
import TjdLemmas.QPLemmas
import TjdLemmas.FWLemmas
import TjdLemmas.PCLemmas
import TjdLemmas.RobustLemmas
import TjdLemmas.NashLemmas
import TjdLemmas.ImpartialLemmas
import TjdLemmas.EquivLemmas
import TjdLemmas.HomogLemmas
import TjdLemmas.GramLemmas
