-- root of the helper-lemma library
import TjdLemmas.C14Lemmas
