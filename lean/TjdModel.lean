import TjdModel.SExp
import TjdModel.Err
import TjdModel.Basic
import TjdModel.Autojac.Typing
import TjdModel.Driver
