/-
  Enumerates every theorem declared in a `TjdProps.*` module together with the axioms it depends
  on; one JSON object per line, prefixed with `AUDIT `.
-/
import Lean
import TjdProps
open Lean Elab Command

elab "#audit_tjd" : command => do
  let env ← getEnv
  let mods := env.header.moduleNames
  let mut out : Array (String × String × Array String) := #[]
  for (n, ci) in env.constants.toList do
    match ci with
    | .thmInfo _ =>
      match env.getModuleIdxFor? n with
      | some idx =>
        let m := mods[idx.toNat]!
        if (`TjdProps).isPrefixOf m then
          let s := n.toString
          if !(isStructure env n.getPrefix) && !(s.splitOn "_proof_").length > 1 && !(s.splitOn "_simp_").length > 1
              && !(s.splitOn "._").length > 1 && !(s.splitOn ".eq_").length > 1
              && !(s.splitOn "match_").length > 1 then
            let axs ← liftCoreM (collectAxioms n)
            out := out.push (m.toString, s, axs.map (·.toString))
      | none => pure ()
    | _ => pure ()
  for (m, s, axs) in out.qsort (fun a b => a.2.1 < b.2.1) do
    let j := Json.mkObj [("module", m), ("name", s), ("axioms", Json.arr (axs.map Json.str))]
    IO.println s!"AUDIT {j.compress}"

#audit_tjd
